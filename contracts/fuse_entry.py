"""Sidecar contracts for the entry points of fusing (C05, C06, C20, C14): AbelianArray._fuse_core and
AbelianArray.fuse -- orchestration only.  The layout computation (`cached_fuse_block_info`, see
contracts/fusecache.py and fuseinfo.py) and the two block-moving strategies are summarised by tokens
(their content is numpy reshaping: bounded tier C05 / C06); what is proved is that the entry points
hand exactly the right things to exactly one strategy and build the result from what comes back:

  _fuse_core  * layout info obtained by cached_fuse_block_info(self, axes_groups) with the groups as given
              * mode insert -> _fuse_blocks_via_insert, concat -> _fuse_blocks_via_concat, auto -> insert for
                the numpy backend and concat otherwise, anything else -> ValueError; each strategy receives
                the stored blocks (concat also the indices), every layout field in its own position, the
                transpose / reshape / zeros functions of the backend of an example block, and zeros keyword
                arguments that carry the COMMON dtype of all stored blocks -- their dtypes folded with the
                backend's promote_types, so that blocks of mixed element type (real + complex) keep their
                imaginary parts (C20; finding F19, repaired) -- and the device of an example block, if any
              * result: new indices and new blocks from the layout / strategy; out of place -> a new array
                (copy_with), operand untouched; in place -> the receiver modified and returned
  fuse        * empty groups are split off, the others are passed on as tuples in the given order together
                with mode and inplace; without any non-empty group nothing is fused (copy unless in place)
              * expand_empty: one expand_dims(g0 + position, inplace=True) on the RESULT per empty group, g0
                the lowest fused axis
"""

import z3

from pyvc.core import SV, PyRaise, SymDict, SymObj, TOpaque, Unsupported
from pyvc.interp import BuiltinVal
from pyvc.task import Task, check_call

from .arrays import BLK, SEC

TOK = TOpaque("LayoutField")
DT = TOpaque("DType")
FIELDS = ("num_groups", "group_singlets", "perm", "position", "axes_before", "axes_after", "new_axes", "new_indices", "blockmap")


def mk_array(it, name):
    cls = it.get_class("abelian_core", "AbelianArray")
    x = SymObj(cls, tag=name)
    x.fields["_blocks"] = SymDict(z3.Const(name + "_has", z3.ArraySort(SEC.sort(), z3.BoolSort())), z3.Const(name + "_val", z3.ArraySort(SEC.sort(), BLK.sort())), SEC, BLK, name + "_blocks")
    x.fields["_indices"] = SV(it.ctx.fresh(name + "_indices", TOK), TOK)
    x.fields["_charge"] = SV(it.ctx.fresh(name + "_charge", TOK), TOK)
    x.fields["_symmetry"] = SV(it.ctx.fresh(name + "_symmetry", TOK), TOK)
    return x


def _core_task(mode, backend, inplace, with_device):
    def body(it):
        ctx = it.ctx
        x = mk_array(it, "x")
        bl = x.fields["_blocks"]
        B0 = (bl.has, bl.val)
        I0 = x.fields["_indices"]
        groups = ((1, 0), (3,))
        info = {f: SV(ctx.fresh("info_" + f, TOK), TOK) for f in FIELDS}
        log = {"info": [], "insert": [], "concat": []}

        def cached(it_, a, kw):
            log["info"].append((a, kw))
            return tuple(info[f] for f in FIELDS)

        it.summaries["abelian_core.cached_fuse_block_info"] = cached
        it.summaries["abelian_core.calc_fuse_block_info"] = lambda it_, a, kw: (_ for _ in ()).throw(Unsupported("uncached layout computation called directly"))
        ex = SymObj(None, tag="example_block")
        ex.fields["dtype"] = SV(ctx.fresh("dtype", DT), DT)
        if with_device:
            ex.fields["device"] = SV(ctx.fresh("device", DT), DT)
        it.summaries["block_core.BlockBase.get_any_array"] = lambda it_, a, kw: ex
        # the element types of ALL stored blocks, folded with the backend's promotion: the common dtype
        common = SV(ctx.fresh("common_dtype_of_all_blocks", DT), DT)
        PROMOTE = z3.Function("promote_types", DT.sort(), DT.sort(), DT.sort())
        marker = SymObj(None, tag="dtypes_of_all_stored_blocks")

        def comp_hook(it_, e, env, kind, it0):
            from pyvc.core import KeyIter
            import ast as _ast

            if isinstance(it0, KeyIter) and it0.has is bl.has and it0.mode == "values" and kind == "gen":
                var = e.generators[0].target
                if isinstance(var, _ast.Name) and not e.generators[0].ifs and _ast.unparse(e.elt) == f"{var.id}.dtype":
                    return marker
                raise Unsupported("unexpected generator over the stored blocks")
            return None

        it.comp_hook = comp_hook

        def reduce_hook(it_, f, seq):
            if seq is not marker:
                raise Unsupported("functools.reduce over another symbolic iterable")
            # the folding function must be the promotion of two dtypes (equal dtypes: that dtype)
            a_, b_ = SV(ctx.fresh("dt_a", DT), DT), SV(ctx.fresh("dt_b", DT), DT)
            r = it_.call(f, [a_, b_])
            okf = isinstance(r, SV) and r.ty == DT and (z3.eq(r.t, a_.t) or z3.eq(r.t, PROMOTE(a_.t, b_.t)))
            ctx.oblige("_fuse_core.block_dtypes_are_folded_with_the_backend_promotion", z3.Implies(z3.BoolVal(bool(okf and z3.eq(r.t, a_.t))), a_.t == b_.t) if okf else z3.BoolVal(False))
            return common

        it.reduce_hook = reduce_hook
        it.externals["ar.infer_backend"] = lambda it_, a, kw: backend if a[0] is ex else (_ for _ in ()).throw(Unsupported("backend of something else"))
        fns = {}

        def ar_do(it_, a, kw):
            if a[0] == "promote_types" and kw.get("like") == backend and all(isinstance(z, SV) and z.ty == DT for z in a[1:3]):
                return SV(PROMOTE(a[1].t, a[2].t), DT)
            raise Unsupported(f"ar.do({a[0]!r})")

        it.externals["ar.do"] = ar_do

        def get_lib_fn(it_, a, kw):
            if a[0] != backend:
                raise Unsupported("library function of another backend")
            return fns.setdefault(a[1], BuiltinVal("lib." + a[1], lambda i2, a2, k2: None))

        it.externals["ar.get_lib_fn"] = get_lib_fn
        newb = SymDict(z3.Const("nb_has", z3.ArraySort(SEC.sort(), z3.BoolSort())), z3.Const("nb_val", z3.ArraySort(SEC.sort(), BLK.sort())), SEC, BLK, "new_blocks")

        def strat(name):
            def f(it_, a, kw):
                log[name].append((a, kw))
                return newb

            return f

        it.summaries["abelian_core._fuse_blocks_via_insert"] = strat("insert")
        it.summaries["abelian_core._fuse_blocks_via_concat"] = strat("concat")
        eff = mode if mode != "auto" else ("insert" if backend == "numpy" else "concat")
        m, _ = x.cls.lookup("_fuse_core")

        def post(r):
            out = [("layout_obtained_once_from_the_cache_with_self_and_the_groups", len(log["info"]) == 1 and list(log["info"][0][0]) == [x, groups] and not log["info"][0][1])]
            other = "concat" if eff == "insert" else "insert"
            out.append((f"exactly_one_call_of_the_{eff}_strategy", len(log[eff]) == 1 and not log[other]))
            if len(log[eff]) != 1:
                return out
            a, kw = log[eff][0]
            zk = a[-1] if a else None
            okz = isinstance(zk, dict) and zk.get("dtype") is common and (zk.get("device") is ex.fields["device"] if with_device else "device" not in zk) and set(zk) <= {"dtype", "device"}
            out.append(("zeros_keyword_arguments_carry_the_common_dtype_of_all_blocks_and_the_device", bool(okz)))
            f_t, f_r, f_z = fns.get("transpose"), fns.get("reshape"), fns.get("zeros")
            if eff == "insert":
                want = [bl, info["num_groups"], info["group_singlets"], info["perm"], info["position"], info["new_indices"], info["blockmap"], f_t, f_r, f_z]
            else:
                want = [I0, bl, info["num_groups"], info["group_singlets"], info["perm"], info["position"], info["axes_before"], info["axes_after"], info["new_axes"], info["new_indices"], info["blockmap"], backend, f_t, f_r, f_z]
            got = list(a[:-1])
            same = len(got) == len(want) and all((g is w) or (isinstance(g, SV) and isinstance(w, SV) and z3.eq(g.t, w.t)) or (isinstance(w, str) and g == w) for g, w in zip(got, want)) and not kw
            out.append(("strategy_receives_blocks_layout_fields_and_backend_functions_in_position", bool(same) and None not in (f_t, f_r, f_z)))
            ok = isinstance(r, SymObj)
            out.append(("returns_an_array", ok))
            if not ok:
                return out
            out += [
                ("result_blocks_are_the_strategy_result", r.fields.get("_blocks") is newb),
                ("result_indices_are_the_layout_indices", isinstance(r.fields.get("_indices"), SV) and z3.eq(r.fields["_indices"].t, info["new_indices"].t)),
                ("charge_and_symmetry_kept", r.fields.get("_charge") is x.fields["_charge"] and r.fields.get("_symmetry") is x.fields["_symmetry"]),
            ]
            if inplace:
                out.append(("in_place_returns_the_receiver", r is x))
            else:
                out += [
                    ("out_of_place_returns_a_new_array", r is not x and r.cls is x.cls),
                    ("operand_blocks_untouched", x.fields["_blocks"] is bl and z3.And(bl.has == B0[0], bl.val == B0[1])),
                    ("operand_indices_untouched", x.fields["_indices"] is I0),
                ]
            return out

        if eff in ("insert", "concat"):
            check_call(it, f"_fuse_core[mode={mode},backend={backend},inplace={inplace}]", m, [x, *groups], {"mode": mode, "inplace": inplace}, post=post)
        else:
            res, exc = check_call(it, f"_fuse_core[mode={mode}]", m, [x, *groups], {"mode": mode, "inplace": inplace}, raises={"ValueError": True})
            ctx.oblige(f"_fuse_core[mode={mode}].unknown_mode_raises_ValueError_without_touching_the_array", exc == "ValueError" and not log["insert"] and not log["concat"] and x.fields["_blocks"] is bl and x.fields["_indices"] is I0)

    return Task(
        f"C05._fuse_core.{mode}.{backend}.inplace_{inplace}" + (".device" if with_device else ""),
        ["C05", "C06", "C20", "C14"],
        ["abelian_core.AbelianArray._fuse_core", "abelian_core.AbelianArray.copy_with", "abelian_core.AbelianArray.modify"],
        body,
        assumes=["contracts of cached_fuse_block_info (contracts/fusecache.py) and of the two block-moving strategies (bounded tier C05 / C06 / C20)"],
    )


def _fuse_task(groups, expand_empty, inplace):
    tag = "_".join("".join(map(str, g)) or "e" for g in groups) or "none"

    def body(it):
        ctx = it.ctx
        x = mk_array(it, "x")
        res_arr = mk_array(it, "xf")
        log = {"core": [], "expand": [], "copy": 0}
        cls = x.cls

        def core(it_, a, kw):
            log["core"].append((a, kw))
            return a[0] if kw.get("inplace") else res_arr

        it.summaries["abelian_core.AbelianArray._fuse_core"] = core

        def expand(it_, a, kw):
            log["expand"].append((a, kw))
            return a[0]

        it.summaries["abelian_core.AbelianArray.expand_dims"] = expand

        def copy(it_, a, kw):
            log["copy"] += 1
            return res_arr

        it.summaries["abelian_core.AbelianArray.copy"] = copy
        nonempty = [tuple(g) for g in groups if g]
        empties = [i for i, g in enumerate(groups) if not g]
        m, _ = cls.lookup("fuse")
        mode = SV(ctx.fresh("mode", TOK), TOK)

        def post(r):
            out = []
            if nonempty:
                okc = len(log["core"]) == 1
                out.append(("fused_once", okc))
                if okc:
                    a, kw = log["core"][0]
                    out.append(("non_empty_groups_passed_on_as_tuples_in_order", a[0] is x and [tuple(g) if isinstance(g, (tuple, list)) else g for g in a[1:]] == nonempty and all(isinstance(g, tuple) for g in a[1:])))
                    out.append(("mode_and_inplace_passed_on", kw.get("mode") is mode and kw.get("inplace") is inplace and set(kw) == {"mode", "inplace"}))
                base = x if inplace else res_arr
            else:
                out.append(("nothing_fused", not log["core"]))
                out.append(("copy_unless_in_place", (log["copy"] == 0) if inplace else (log["copy"] == 1)))
                base = x if inplace else res_arr
            out.append(("returns_the_fused_array", r is base))
            if expand_empty and empties and nonempty:
                g0 = min(a for g in nonempty for a in g)
                want = [g0 + i for i in empties]
                got = [(a[0] is base, a[1] if len(a) > 1 else kw.get("axis"), kw.get("inplace")) for a, kw in log["expand"]]
                out.append(("one_new_axis_per_empty_group_on_the_result_in_place", got == [(True, w, True) for w in want]))
            else:
                out.append(("no_axes_added", not log["expand"]) if (nonempty or not expand_empty or not empties) else ("(no claim)", True))
            return out

        raises = {"ValueError": True} if (expand_empty and empties and not nonempty) else None
        check_call(it, f"fuse[groups={tag},expand_empty={expand_empty},inplace={inplace}]", m, [x, *groups], {"expand_empty": expand_empty, "mode": mode, "inplace": inplace}, post=post, raises=raises)

    return Task(f"C05.fuse.entry.{tag}.expand_{expand_empty}.inplace_{inplace}", ["C05", "C06", "C14"], ["abelian_core.AbelianArray.fuse"], body, assumes=["contract of _fuse_core (this module) and expand_dims (bounded tier C08)"])


def tasks():
    out = []
    for mode in ("auto", "insert", "concat", "bogus"):
        for backend in ("numpy", "torch"):
            for inplace in (False, True):
                out.append(_core_task(mode, backend, inplace, with_device=(backend == "torch")))
    for groups in (((0, 1),), ((1, 0), (2,)), ([2, 1],), ((), (0, 1)), ((0, 1), (), (3, 2)), ((),), ()):
        for ee in (True, False):
            if ee and groups and not any(groups):
                continue  # only empty groups and expand_empty: no axis to anchor the new ones (min() of nothing raises): no claim
            for ip in (False, True):
                out.append(_fuse_task(groups, ee, ip))
    return out
