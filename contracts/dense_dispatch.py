"""Sidecar contract for utils.from_dense (C16, C18: the symmetry-name dispatch helper used by the local operator
builders): for each of the eight (symmetry, fermionic) combinations the class chosen is the STATIC class of that
symmetry (its `get_class_symmetry()` is the symmetry asked for) and is a fermionic class exactly when `fermionic` is
set; the dense array, the index maps, the directions and the charge are forwarded unchanged to its `from_dense`, whose
result is returned.  An unknown symmetry name or flag raises (KeyError) before anything is built.
"""

from pyvc.core import PyRaise, SymObj
from pyvc.task import Task

Q = "utils.from_dense"


def _body(it):
    ob = it.ctx.oblige
    fn = it.module_lookup("utils", "from_dense")
    fa = it.get_class("fermionic_core", "FermionicArray")

    def is_sub(cls, base):
        seen, todo = set(), [cls]
        while todo:
            c = todo.pop()
            if c is base:
                return True
            if id(c) in seen:
                continue
            seen.add(id(c))
            todo += list(getattr(c, "bases", []) or [])
        return False

    for sym in ("Z2", "U1", "Z2Z2", "U1U1"):
        for ferm in (False, True):
            calls = []
            res = SymObj(None, tag="array")
            it.summaries["abelian_core.AbelianArray.from_dense"] = lambda it_, a, k, calls=calls, res=res: (calls.append((tuple(a), dict(k))) or res)
            arr, maps, duals, ch = (SymObj(None, tag=t) for t in ("dense", "index_maps", "duals", "charge"))
            r = it.call(fn, [arr, sym, maps], {"duals": duals, "fermionic": ferm, "charge": ch})
            tag = f"utils.from_dense[{sym},fermionic={ferm}]"
            ok = len(calls) == 1
            ob(tag + ".one_class_constructor_called_and_its_result_returned", ok and r is res)
            if not ok:
                continue
            a, k = calls[0]
            cls = a[0]
            full = dict(zip(("cls", "array", "index_maps", "duals", "charge"), a))
            full.update(k)
            ob(tag + ".dense_array_maps_directions_and_charge_forwarded_unchanged", full.get("array") is arr and full.get("index_maps") is maps and full.get("duals") is duals and full.get("charge") is ch and full.get("symmetry") is None)
            m, _ = cls.lookup("get_class_symmetry")
            s = it.call(m, [], {})
            want = it.get_class("symmetries", sym)
            ob(tag + ".class_has_the_symmetry_asked_for", isinstance(s, SymObj) and s.cls is want)
            ob(tag + ".fermionic_class_exactly_when_asked", is_sub(cls, fa) == ferm)
    for bad in (("Z4", False), ("Z2", None)):
        try:
            it.call(fn, [SymObj(None, tag="dense"), bad[0], SymObj(None, tag="maps")], {"fermionic": bad[1]})
            ob(f"utils.from_dense[{bad}].unknown_combination_raises", False)
        except PyRaise as e:
            ob(f"utils.from_dense[{bad}].unknown_combination_raises_KeyError", e.exc == "KeyError")


def tasks():
    return [Task("C16.utils_from_dense.dispatch", ["C16", "C18"], [Q], _body, assumes=["callee AbelianArray.from_dense (inherited classmethod): bounded tier C16"])]
