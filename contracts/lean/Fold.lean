/-
  Machine-checked proofs (Lean 4 + Mathlib) of the fold lemmas that the sidecar contracts
  assume at the instances they use (assumption A-lemmas of DESIGN.md).

  The ghost fold of the VC generator is   SUM(a,0) = 0,  SUM(a,k+1) = SUM(a,k) + a[k]
  over integer-indexed arrays; here `a : ℕ → ℤ` (resp. `ℕ → ℝ`) is the restriction to the
  indices 0 ≤ i < n that the lemmas talk about.
-/
import Mathlib

def SUM (a : ℕ → ℤ) : ℕ → ℤ
  | 0 => 0
  | k + 1 => SUM a k + a k

def SUMR (a : ℕ → ℝ) : ℕ → ℝ
  | 0 => 0
  | k + 1 => SUMR a k + a k

/-- LS1a: the fold only depends on the first `n` entries. -/
theorem LS_prefix (a b : ℕ → ℤ) (n : ℕ) (h : ∀ i, i < n → a i = b i) : SUM a n = SUM b n := by
  induction n with
  | zero => rfl
  | succ k ih =>
    simp only [SUM]
    rw [ih (fun i hi => h i (Nat.lt_succ_of_lt hi)), h k (Nat.lt_succ_self k)]

/-- LS_lin (equality form, s = ±1 or any factor): pointwise `A i = s * B i` gives `SUM A = s * SUM B`. -/
theorem LS_lin_eq (A B : ℕ → ℤ) (s : ℤ) (n : ℕ) (h : ∀ i, i < n → A i = s * B i) :
    SUM A n = s * SUM B n := by
  induction n with
  | zero => simp [SUM]
  | succ k ih =>
    simp only [SUM]
    rw [ih (fun i hi => h i (Nat.lt_succ_of_lt hi)), h k (Nat.lt_succ_self k)]
    ring

/-- LS_lin (congruence form): pointwise `A i ≡ s * B i (mod m)` gives `SUM A ≡ s * SUM B (mod m)`. -/
theorem LS_lin_mod (A B : ℕ → ℤ) (s m : ℤ) (n : ℕ)
    (h : ∀ i, i < n → (A i - s * B i) % m = 0) : (SUM A n - s * SUM B n) % m = 0 := by
  induction n with
  | zero => simp [SUM]
  | succ k ih =>
    simp only [SUM]
    have h1 := ih (fun i hi => h i (Nat.lt_succ_of_lt hi))
    have h2 := h k (Nat.lt_succ_self k)
    have e : SUM A k + A k - s * (SUM B k + B k) = (SUM A k - s * SUM B k) + (A k - s * B k) := by ring
    rw [e, Int.add_emod, h1, h2]
    simp

/-- LS_store: overwriting entry `i < n` changes the fold by the difference. -/
theorem LS_store (a : ℕ → ℤ) (i n : ℕ) (v : ℤ) (hi : i < n) :
    SUM (Function.update a i v) n = SUM a n - a i + v := by
  induction n with
  | zero => omega
  | succ k ih =>
    simp only [SUM]
    by_cases hk : i = k
    · subst hk
      have hp : SUM (Function.update a i v) i = SUM a i :=
        LS_prefix _ _ i (fun j hj => by simp [Function.update, Nat.ne_of_lt hj])
      rw [hp]
      simp [Function.update]
    · have hlt : i < k := by omega
      rw [ih hlt]
      have : Function.update a i v k = a k := by
        simp [Function.update, Ne.symm hk]
      rw [this]
      ring

/-- LS_mono: entries bounded below by `c` give a fold bounded below by `n * c`. -/
theorem LS_mono (a : ℕ → ℤ) (c : ℤ) (n : ℕ) (h : ∀ i, i < n → c ≤ a i) : (n : ℤ) * c ≤ SUM a n := by
  induction n with
  | zero => simp [SUM]
  | succ k ih =>
    simp only [SUM]
    have h1 := ih (fun i hi => h i (Nat.lt_succ_of_lt hi))
    have h2 := h k (Nat.lt_succ_self k)
    push_cast
    nlinarith

/-- LS_scale + LS_floor: if `b i = ⌊f * s i⌋` then `SUM b` lies in `(f * SUM s - n, f * SUM s]`. -/
theorem LS_floor (b s : ℕ → ℤ) (f : ℝ) (n : ℕ) (h : ∀ i, i < n → b i = ⌊f * (s i : ℝ)⌋) :
    ((SUM b n : ℤ) : ℝ) ≤ f * ((SUM s n : ℤ) : ℝ) ∧ f * ((SUM s n : ℤ) : ℝ) - n < ((SUM b n : ℤ) : ℝ) ∨ n = 0 := by
  induction n with
  | zero => right; rfl
  | succ k ih =>
    left
    simp only [SUM]
    have hk := h k (Nat.lt_succ_self k)
    have hfl1 : ((⌊f * (s k : ℝ)⌋ : ℤ) : ℝ) ≤ f * (s k : ℝ) := Int.floor_le _
    have hfl2 : f * (s k : ℝ) - 1 < ((⌊f * (s k : ℝ)⌋ : ℤ) : ℝ) := Int.sub_one_lt_floor _
    rcases ih (fun i hi => h i (Nat.lt_succ_of_lt hi)) with ⟨h1, h2⟩ | h0
    · constructor
      · push_cast; rw [hk]; nlinarith
      · push_cast; rw [hk]; nlinarith
    · subst h0
      simp only [SUM]
      constructor
      · push_cast; rw [hk]; nlinarith
      · push_cast; rw [hk]; nlinarith

/-- LS_cum_mono (contracts/truncation.py): a fold of non-negative reals is monotone in its length. -/
theorem LS_cum_mono (a : ℕ → ℝ) (n : ℕ) (h : ∀ i, i < n → 0 ≤ a i) :
    ∀ i j, i ≤ j → j ≤ n → SUMR a i ≤ SUMR a j := by
  intro i j hij hjn
  induction j with
  | zero =>
    have : i = 0 := by omega
    subst this
    exact le_refl _
  | succ k ih =>
    by_cases hk : i = k + 1
    · subst hk
      exact le_refl _
    · have hik : i ≤ k := by omega
      have h1 := ih hik (by omega)
      have h2 := h k (by omega)
      simp only [SUMR]
      linarith

/-- LB_boundary (contracts/truncation.py): a monotone boolean sequence on `[0, n)` has a boundary index `d`:
    false below `d`, true from `d` on. -/
theorem LB_boundary (p : ℕ → Prop) (n : ℕ)
    (hmono : ∀ i j, i ≤ j → j < n → p i → p j) :
    ∃ d, d ≤ n ∧ (∀ k, k < d → ¬ p k) ∧ (∀ k, d ≤ k → k < n → p k) := by
  classical
  induction n with
  | zero => exact ⟨0, le_refl _, fun k hk => by omega, fun k _ hk => by omega⟩
  | succ m ih =>
    obtain ⟨d, hd, hlo, hhi⟩ := ih (fun i j hij hj hp => hmono i j hij (by omega) hp)
    by_cases hd' : d < m
    · -- the boundary is strictly inside: p (m-1) holds, hence p m
      refine ⟨d, by omega, hlo, ?_⟩
      intro k hdk hk
      by_cases hkm : k < m
      · exact hhi k hdk hkm
      · have : k = m := by omega
        subst this
        exact hmono d k (by omega) (by omega) (hhi d (le_refl _) hd')
    · have hdm : d = m := by omega
      subst hdm
      by_cases hp : p d
      · exact ⟨d, by omega, hlo, fun k hdk hk => by
          have : k = d := by omega
          subst this
          exact hp⟩
      · refine ⟨d + 1, le_refl _, ?_, fun k hdk hk => by omega⟩
        intro k hk
        by_cases hkd : k < d
        · exact hlo k hkd
        · have : k = d := by omega
          subst this
          exact hp

/-- LB_count: with such a boundary the number of true entries below `n` is `n - d`. -/
theorem LB_count (p : ℕ → Prop) [DecidablePred p] (n d : ℕ) (_hd : d ≤ n)
    (hlo : ∀ k, k < d → ¬ p k) (hhi : ∀ k, d ≤ k → k < n → p k) :
    ((Finset.range n).filter p).card = n - d := by
  have hset : (Finset.range n).filter p = Finset.Ico d n := by
    ext k
    simp only [Finset.mem_filter, Finset.mem_range, Finset.mem_Ico]
    constructor
    · rintro ⟨hk, hp⟩
      refine ⟨?_, hk⟩
      by_contra hlt
      exact hlo k (by omega) hp
    · rintro ⟨hdk, hk⟩
      exact ⟨hk, hhi k hdk hk⟩
  rw [hset, Nat.card_Ico]

/-! The order axioms under which `contracts/truncation.py` abstracts products of two unknown reals
    (`real_mul`, `real_square`) are facts of real multiplication. -/
theorem AX_mul_comm (x y : ℝ) : x * y = y * x := mul_comm x y

theorem AX_mul_mono (x y z : ℝ) (h : x ≤ y) (hz : 0 ≤ z) : x * z ≤ y * z :=
  mul_le_mul_of_nonneg_right h hz

theorem AX_mul_nonneg (x y : ℝ) (hx : 0 ≤ x) (hy : 0 ≤ y) : 0 ≤ x * y := mul_nonneg hx hy

theorem AX_sq_nonneg (x : ℝ) : 0 ≤ x * x := mul_self_nonneg x

theorem AX_sq_mono (x y : ℝ) (hx : 0 ≤ x) (h : x ≤ y) : x * x ≤ y * y :=
  mul_le_mul h h hx (le_trans hx h)
