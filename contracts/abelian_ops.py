"""Sidecar contracts for the structural / scalar operations of BlockBase and AbelianArray
(C08, C14, C01): apply_to_arrays, unary minus, scalar * and /, conj, transpose, dagger.

numpy primitives are uninterpreted functions of the block (A-numpy); what is proved is the
block-level bookkeeping: which sectors the result has, which primitive was applied to which
block, how indices / charge are updated, and the frames (operand untouched, result dicts fresh).
"""

import ast as _ast

import z3

from pyvc.builtins_model import LoopSpec
from pyvc.core import SV, SymObj, TInt, TOpaque, Unsupported
from pyvc.interp import BuiltinVal
from pyvc.task import Task, check_call

from .arrays import (
    BLK,
    CHG,
    IDX,
    PERM,
    REV,
    SEC,
    Snapshot,
    conj_idx,
    conjb,
    fresh_result_clauses,
    install_rekey_hooks,
    mk_farray,
    neg,
    neg_chg,
    perm_idx,
    perm_sec,
    rekey_axioms,
    symmetry_with_sign,
    tr,
    unperm_sec,
)

SCAL = TOpaque("ScalarArg")
smulf = z3.Function("np_scalar_mul", BLK.sort(), SCAL.sort(), BLK.sort())
sdivf = z3.Function("np_scalar_div", BLK.sort(), SCAL.sort(), BLK.sort())
FNf = z3.Function("user_fn", BLK.sort(), BLK.sort())
AQ = "block_core.BlockBase.apply_to_arrays"


def sv(n):
    return z3.Const(n, SEC.sort())


def spec_apply_to_arrays():
    """loop contract of BlockBase.apply_to_arrays relative to the blocks at loop entry: visited blocks are
    fn(old block), unvisited untouched, key set fixed.  `fn` is evaluated symbolically on the old block."""

    def cap(it, env):
        bl = env.vars["self"].fields["_blocks"]
        return {"B": (bl.has, bl.val)}

    def inv(it, env, g):
        B0 = g["pre"]["B"]
        bl = env.vars["self"].fields["_blocks"]
        vis = g["vis"]
        s = sv("s!ata")
        it.term_mode += 1
        try:
            img = it.call(env.vars["fn"], [SV(z3.Select(B0[1], s), BLK)])
        finally:
            it.term_mode -= 1
        if not (isinstance(img, SV) and img.ty == BLK):
            raise Unsupported("apply_to_arrays: fn does not return a block")
        return [
            ("keys_fixed", z3.ForAll([s], z3.Select(bl.has, s) == z3.Select(B0[0], s))),
            ("visited_mapped", z3.ForAll([s], z3.Implies(z3.Select(vis, s), z3.Select(bl.val, s) == img.t))),
            ("unvisited_untouched", z3.ForAll([s], z3.Implies(z3.Not(z3.Select(vis, s)), z3.Select(bl.val, s) == z3.Select(B0[1], s)))),
        ]

    return LoopSpec(carried={}, cells=[lambda env: env.vars["self"].fields["_blocks"]], invariant=inv, pre_capture=cap)


DTN = TOpaque("DTypeName")
dtn_contains = z3.Function("dtype_name_contains", DTN.sort(), z3.StringSort(), z3.BoolSort())


def install(it):
    install_rekey_hooks(it)
    it.loop_specs[(AQ, 0)] = spec_apply_to_arrays()
    # x.dtype is the dtype name of ONE (arbitrary) stored block; nothing is known about it or about what it contains
    it.summaries["block_core.BlockBase.dtype"] = lambda it_, a, k: SV(it_.ctx.fresh("dtype_of_some_block", DTN), DTN)
    it.opaque_contains = dict(getattr(it, "opaque_contains", {}), DTypeName=lambda it_, cont, v: dtn_contains(cont.t, z3.StringVal(v)) if isinstance(v, str) else (_ for _ in ()).throw(Unsupported("membership test on a dtype name")))

    def binop_hook(it_, op, a, b):
        if isinstance(a, SV) and a.ty == BLK and isinstance(b, SV) and b.ty == SCAL:
            if op is _ast.Mult:
                return SV(smulf(a.t, b.t), BLK)
            if op is _ast.Div:
                return SV(sdivf(a.t, b.t), BLK)
        return None

    it.binop_hook = binop_hook


def frame(res, x, snap, inplace):
    if inplace:
        return [("inplace_returns_receiver", res is x)]
    return fresh_result_clauses(res, x, snap) + [("operand_" + n, t) for n, t in snap.unchanged()]


def same_keys_mapped(res, B0, f, nm):
    rb = res.fields["_blocks"]
    s = sv("s!" + nm)
    return [
        ("same_sectors", z3.ForAll([s], z3.Select(rb.has, s) == z3.Select(B0[0], s))),
        ("every_block_mapped", z3.ForAll([s], z3.Implies(z3.Select(B0[0], s), z3.Select(rb.val, s) == f(z3.Select(B0[1], s))))),
    ]


def _apply_task():
    def body(it):
        install(it)
        x = mk_farray(it, fermionic=False)
        B0 = (x.fields["_blocks"].has, x.fields["_blocks"].val)
        fn = BuiltinVal("fn", lambda it_, a, k: SV(FNf(a[0].t), BLK))

        def post(r):
            return [("returns_none", r is None)] + same_keys_mapped(x, B0, FNf, "ata") + [("other_fields_untouched", set(x.fields) == {"_blocks", "_indices", "_charge", "_symmetry"})]

        check_call(it, "BlockBase.apply_to_arrays", it.getattr(x, "apply_to_arrays"), [fn], post=post)

    return Task("C08.apply_to_arrays", ["C08", "C14"], [AQ], body, axioms=rekey_axioms, assumes=["fn is a pure function of one block"])


def _scalar_task(op):
    """op in neg, mul, rmul, truediv"""
    dunder = {"neg": "__neg__", "mul": "__mul__", "rmul": "__rmul__", "truediv": "__truediv__"}[op]

    def body(it):
        install(it)
        x = mk_farray(it, fermionic=False)
        snap = Snapshot(x)
        B0 = (x.fields["_blocks"].has, x.fields["_blocks"].val)
        c = SV(it.ctx.fresh("scalar", SCAL), SCAL)
        f = {"neg": neg, "mul": lambda b: smulf(b, c.t), "rmul": lambda b: smulf(b, c.t), "truediv": lambda b: sdivf(b, c.t)}[op]
        cls = it.get_class("block_core", "BlockBase")
        m, _ = cls.lookup(dunder)

        def post(r):
            out = frame(r, x, snap, False)
            if isinstance(r, SymObj):
                out += same_keys_mapped(r, B0, f, op)
                for fld in ("_indices", "_charge"):
                    out.append((f"result{fld}_same", r.fields[fld].t == snap.vals[fld].t))
            return out

        check_call(it, f"BlockBase.{dunder}", m, [x] if op == "neg" else [x, c], post=post)

    return Task(f"C08.scalar_op.{op}", ["C08", "C14"], [f"block_core.BlockBase.{dunder}", AQ, "abelian_core.AbelianArray.copy"], body, axioms=rekey_axioms, assumes=["A-numpy: block * scalar, block / scalar, -block are pure functions"])


def _conj_task(inplace):
    def body(it):
        install(it)
        x = mk_farray(it, fermionic=False)
        x.fields["_symmetry"] = symmetry_with_sign(it)
        snap = Snapshot(x)
        B0 = (x.fields["_blocks"].has, x.fields["_blocks"].val)
        I0, C0 = x.fields["_indices"].t, x.fields["_charge"].t

        def comp_hook(it_, e, env, kind, it0):
            if isinstance(it0, SV) and it0.ty == IDX:
                return SV(conj_idx(it0.t), IDX)  # tuple(ix.conj() for ix in indices)
            return None

        it.comp_hook = comp_hook

        def post(r):
            out = frame(r, x, snap, inplace)
            if isinstance(r, SymObj):
                out += same_keys_mapped(r, B0, conjb, "cj")
                out += [("indices_conjugated", r.fields["_indices"].t == conj_idx(I0)), ("charge_negated", r.fields["_charge"].t == neg_chg(C0))]
            return out

        check_call(it, f"AbelianArray.conj[inplace={inplace}]", it.get_class("abelian_core", "AbelianArray").lookup("conj")[0], [x], {"inplace": inplace}, post=post)

    return Task(f"C08.AbelianArray.conj.inplace_{inplace}", ["C08", "C14", "C01"], ["abelian_core.AbelianArray.conj", AQ, "abelian_core.AbelianArray.modify"], body, axioms=rekey_axioms)


def _transpose_task(inplace, with_axes):
    def body(it):
        install(it)
        x = mk_farray(it, fermionic=False)
        nd = it.ctx.fresh("ndim", TInt)
        snap = Snapshot(x)
        B0 = (x.fields["_blocks"].has, x.fields["_blocks"].val)
        I0 = x.fields["_indices"].t
        if with_axes:
            axes = SV(it.ctx.fresh("axes", PERM), PERM)
            a = axes.t
            args = [x, axes]
        else:
            a = REV
            args = [x]
            # axes=None: tuple(range(ndim-1, -1, -1)) is the full reversal
            it.opaque_len = dict(getattr(it, "opaque_len", {}), Indices=lambda v: SV(nd, TInt))
            it.ctx.assume(nd >= 0)
            orig_to_perm = it.to_perm

            def to_perm(v):
                from pyvc.core import SymSeq

                if isinstance(v, SymSeq) and v.kind in ("tuple", "range"):
                    j = z3.Int("j!rev")
                    it.ctx.oblige("AbelianArray.transpose.default_axes_are_full_reversal", z3.And(v.length == nd, z3.ForAll([j], z3.Implies(z3.And(j >= 0, j < nd), z3.Select(v.arr, j) == nd - 1 - j))))
                    return REV
                return orig_to_perm(v)

            it.to_perm = to_perm
            # summaries capture to_perm at install time: re-install with the new resolver
            from .arrays import install_rekey_hooks as _irh

            def permuted(it_, aa, k):
                xx, ax = aa
                p = to_perm(ax)
                if isinstance(xx, SV) and xx.ty == SEC:
                    return SV(perm_sec(xx.t, p), SEC)
                return SV(perm_idx(xx.t, p), IDX)

            it.summaries["abelian_core.permuted"] = permuted

            def get_lib_fn(it_, aa, k):
                return BuiltinVal("np.transpose", lambda i2, a2, k2: SV(tr(a2[0].t, to_perm(a2[1])), BLK))

            it.externals["ar.get_lib_fn"] = get_lib_fn

        def post(r):
            out = frame(r, x, snap, inplace)
            if isinstance(r, SymObj):
                rb = r.fields["_blocks"]
                s, k = sv("s!tp"), sv("k!tp")
                out += [
                    ("stored_sectors_are_exactly_the_permuted_ones", z3.ForAll([k], z3.Select(rb.has, k) == z3.Select(B0[0], unperm_sec(k, a)))),
                    ("block_of_permuted_sector_is_transposed_block", z3.ForAll([s], z3.Implies(z3.Select(B0[0], s), z3.Select(rb.val, perm_sec(s, a)) == tr(z3.Select(B0[1], s), a)))),
                    ("indices_permuted", r.fields["_indices"].t == perm_idx(I0, a)),
                    ("charge_kept", r.fields["_charge"].t == snap.vals["_charge"].t),
                ]
            return out

        check_call(it, f"AbelianArray.transpose[inplace={inplace},axes={'given' if with_axes else 'None'}]", it.get_class("abelian_core", "AbelianArray").lookup("transpose")[0], args, {"inplace": inplace}, post=post)

    return Task(
        f"C08.AbelianArray.transpose.inplace_{inplace}.{'axes' if with_axes else 'default'}",
        ["C08", "C14", "C01"],
        ["abelian_core.AbelianArray.transpose", "abelian_core.AbelianArray.modify", "abelian_core.AbelianArray.copy"],
        body,
        axioms=rekey_axioms,
        assumes=["requires: axes is a permutation of range(ndim) (bijective re-keying)"],
    )


def tasks():
    out = [_apply_task()]
    for op in ("neg", "mul", "rmul", "truediv"):
        out.append(_scalar_task(op))
    for ip in (False, True):
        out.append(_conj_task(ip))
        for wa in (True, False):
            out.append(_transpose_task(ip, wa))
    return out
