"""Sidecar contracts for /repo/symmray/symmetries.py  (property C17; used by C01, C03, C10).

Arithmetisation (T-group): Z2 -> Z mod 2, Z4 -> Z mod 4, U1 -> Z, Z2Z2 -> (Z mod 2)^2,
U1U1 -> Z^2.  The contracts say that the real methods compute this arithmetisation on
valid charges and that the results are the canonical representatives; the group laws
of the property are then separate obligations over executions of the real bodies.
"""

import z3

from pyvc.builtins_model import LoopSpec, SUM_fn, fold_axioms
from pyvc.core import SV, SymSeq, TBool, TInt
from pyvc.interp import I, StarSeq
from pyvc.task import Task, check_call

from .util import MOD, PAIR, SYMS, TUP2, charge_eq, charge_ok, comps, fresh_charge, fresh_seq, is_charge_shape, norm, ok_scalar, sym_obj

S = SUM_fn()


_SP = {}


def SP(f):
    """ghost fold of component f of a sequence of pairs: SP_f(a,0)=0, SP_f(a,k+1)=SP_f(a,k)+f(a[k])"""
    if f not in _SP:
        _SP[f] = z3.Function("SUMP_" + f, z3.ArraySort(z3.IntSort(), TUP2.sort()), z3.IntSort(), z3.IntSort())
    return _SP[f]


def pair_fold_axioms():
    out = list(fold_axioms())
    a = z3.Const("a!axp", z3.ArraySort(z3.IntSort(), TUP2.sort()))
    k = z3.Int("k!axp")
    for f in ("f0", "f1"):
        F = SP(f)
        out.append(z3.ForAll([a], F(a, 0) == 0))
        out.append(z3.ForAll([a, k], z3.Implies(k >= 0, F(a, k + 1) == F(a, k) + TUP2.get(a[k], f)), patterns=[F(a, k + 1)]))
    return out


def _combine_loop_spec(sym):
    """Z2Z2.combine / U1U1.combine, loop 0: `for cl, cr in charges`"""

    def inv(it, env, g):
        seq = g["seq"]
        k = g["k"]
        c0, c1 = I(env.vars["c0"]), I(env.vars["c1"])
        return [
            ("c0_is_fold", c0 == norm(sym, SP("f0")(seq.arr, k))),
            ("c1_is_fold", c1 == norm(sym, SP("f1")(seq.arr, k))),
        ]

    return LoopSpec(carried={"c0": "int", "c1": "int"}, invariant=inv)


def _valid_tasks(sym):
    def body_variadic(it):
        s = sym_obj(it, sym)
        ety = TUP2 if sym in PAIR else TInt
        cs = fresh_seq(it, "cs", ety)
        j = z3.Int("j!spec")
        if sym in PAIR:
            e = z3.Select(cs.arr, j)
            okj = z3.And(ok_scalar(sym, TUP2.get(e, "f0")), ok_scalar(sym, TUP2.get(e, "f1")))
        else:
            okj = ok_scalar(sym, z3.Select(cs.arr, j))
        spec = z3.ForAll([j], z3.Implies(z3.And(j >= 0, j < cs.length), okj))

        def post(r):
            t = it.truth(r)
            t = z3.BoolVal(t) if isinstance(t, bool) else t
            return [("result_iff_all_valid", t == spec)]

        check_call(it, f"{sym}.valid[n]", it.getattr(s, "valid"), [StarSeq(cs)], post=post)

    def body_one(it):
        s = sym_obj(it, sym)
        if sym in PAIR:
            a, b = it.ctx.fresh("a", TInt), it.ctx.fresh("b", TInt)
            v = (SV(a, TInt), SV(b, TInt))
            ok = z3.And(ok_scalar(sym, a), ok_scalar(sym, b))
        else:
            a = it.ctx.fresh("a", TInt)
            v = SV(a, TInt)
            ok = ok_scalar(sym, a)

        def post(r):
            t = it.truth(r)
            t = z3.BoolVal(t) if isinstance(t, bool) else t
            return [("valid_iff_in_range", t == ok)]

        check_call(it, f"{sym}.valid[1]", it.getattr(s, "valid"), [v], post=post)

    q = f"symmetries.{sym}.valid"
    return [
        Task(f"C17.{sym}.valid.variadic", ["C17"], [q], body_variadic),
        Task(f"C17.{sym}.valid.unary", ["C17"], [q], body_one),
    ]


def _combine_variadic_task(sym):
    def body(it):
        s = sym_obj(it, sym)
        ctx = it.ctx
        if sym in PAIR:
            cs = fresh_seq(it, "cs", TUP2)
            j = z3.Int("j!pre")
            e = z3.Select(cs.arr, j)
            ctx.assume(z3.ForAll([j], z3.Implies(z3.And(j >= 0, j < cs.length), z3.And(ok_scalar(sym, TUP2.get(e, "f0")), ok_scalar(sym, TUP2.get(e, "f1"))))))
            it.loop_specs[(f"symmetries.{sym}.combine", 0)] = _combine_loop_spec(sym)
            want = [norm(sym, SP("f0")(cs.arr, cs.length)), norm(sym, SP("f1")(cs.arr, cs.length))]
        else:
            cs = fresh_seq(it, "cs", TInt)
            j = z3.Int("j!pre")
            ctx.assume(z3.ForAll([j], z3.Implies(z3.And(j >= 0, j < cs.length), ok_scalar(sym, z3.Select(cs.arr, j)))))
            want = [norm(sym, S(cs.arr, cs.length))]

        def post(r):
            if not is_charge_shape(sym, r):
                return [("result_shape", False)]
            return [("result_is_normalised_sum", charge_eq(sym, r, want)), ("result_valid", charge_ok(sym, r))]

        check_call(it, f"{sym}.combine[n]", it.getattr(s, "combine"), [StarSeq(cs)], post=post)

    return Task(
        f"C17.{sym}.combine.variadic",
        ["C17"],
        [f"symmetries.{sym}.combine"],
        body,
        axioms=pair_fold_axioms,
        assumes=["A-builtins: sum(seq) is the ghost fold SUM(seq, len) defined by SUM(a,0)=0, SUM(a,k+1)=SUM(a,k)+a[k]"],
    )


def _call(it, s, meth, *args):
    return it.call(it.getattr(s, meth), list(args))


def _laws_task(sym):
    """Group laws of the property, as obligations over executions of the real bodies."""

    def body(it):
        s = sym_obj(it, sym)
        a = fresh_charge(it, sym, "a")
        b = fresh_charge(it, sym, "b")
        c = fresh_charge(it, sym, "c")
        ctx = it.ctx
        ob = ctx.oblige

        def eq(x, y):
            if not (is_charge_shape(sym, x) and is_charge_shape(sym, y)):
                return z3.BoolVal(False)
            return charge_eq(sym, x, comps(sym, y))

        e = _call(it, s, "combine")
        ab = _call(it, s, "combine", a, b)
        ba = _call(it, s, "combine", b, a)
        bc = _call(it, s, "combine", b, c)
        ob(f"{sym}.law.identity_value", eq(e, tuple([0, 0]) if sym in PAIR else 0))
        ob(f"{sym}.law.identity_left", eq(_call(it, s, "combine", e, a), a))
        ob(f"{sym}.law.identity_right", eq(_call(it, s, "combine", a, e), a))
        ob(f"{sym}.law.unary_combine", eq(_call(it, s, "combine", a), a))
        ob(f"{sym}.law.commutative", eq(ab, ba))
        ob(f"{sym}.law.associative", eq(_call(it, s, "combine", ab, c), _call(it, s, "combine", a, bc)))
        ob(f"{sym}.law.ternary_is_folded_binary", eq(_call(it, s, "combine", a, b, c), _call(it, s, "combine", ab, c)))
        ob(f"{sym}.law.closed", charge_ok(sym, ab) if is_charge_shape(sym, ab) else False)
        na = _call(it, s, "sign", a)
        nb = _call(it, s, "sign", b)
        ob(f"{sym}.law.sign_valid", charge_ok(sym, na) if is_charge_shape(sym, na) else False)
        t = it.truth(_call(it, s, "valid", na))
        ob(f"{sym}.law.sign_valid_by_own_predicate", t)
        ob(f"{sym}.law.inverse", eq(_call(it, s, "combine", a, na), e))
        ob(f"{sym}.law.sign_false_is_identity", eq(_call(it, s, "sign", a, False), a))
        ob(f"{sym}.law.sign_kw_false", eq(it.call(it.getattr(s, "sign"), [a], {"dual": False}), a))
        ob(f"{sym}.law.sign_involution", eq(_call(it, s, "sign", na), a))
        ob(f"{sym}.law.sign_distributes", eq(_call(it, s, "sign", ab), _call(it, s, "combine", na, nb)))
        # value of sign against the arithmetisation
        ob(f"{sym}.law.sign_value", charge_eq(sym, na, [norm(sym, -x) for x in comps(sym, a)]) if is_charge_shape(sym, na) else False)
        ob(f"{sym}.law.combine_value", charge_eq(sym, ab, [norm(sym, x + y) for x, y in zip(comps(sym, a), comps(sym, b))]) if is_charge_shape(sym, ab) else False)
        pa, pb, pab = (_call(it, s, "parity", x) for x in (a, b, ab))
        ob(f"{sym}.law.parity_range", z3.And(I(pa) >= 0, I(pa) <= 1))
        ob(f"{sym}.law.parity_value", I(pa) == sum(comps(sym, a)) % 2)
        ob(f"{sym}.law.parity_homomorphism", I(pab) == (I(pa) + I(pb)) % 2)
        ob(f"{sym}.law.parity_of_inverse", I(_call(it, s, "parity", na)) == I(pa))

    return Task(
        f"C17.{sym}.laws",
        ["C17"],
        [f"symmetries.{sym}.{m}" for m in ("valid", "combine", "sign", "parity")] + ["symmetries.sign_scalar", "symmetries.sign_tuple"],
        body,
    )


def _variadic_fold_task(sym):
    """combine(*cs, c) == combine(combine(*cs), c): the variadic form is the fold of the binary one."""

    def body(it):
        if sym in PAIR:
            it.loop_specs[(f"symmetries.{sym}.combine", 0)] = _combine_loop_spec(sym)
        s = sym_obj(it, sym)
        ctx = it.ctx
        ety = TUP2 if sym in PAIR else TInt
        cs = fresh_seq(it, "cs", ety)
        j = z3.Int("j!pre")
        e = z3.Select(cs.arr, j)
        if sym in PAIR:
            okj = z3.And(ok_scalar(sym, TUP2.get(e, "f0")), ok_scalar(sym, TUP2.get(e, "f1")))
        else:
            okj = ok_scalar(sym, e)
        ctx.assume(z3.ForAll([j], z3.Implies(z3.And(j >= 0, j < cs.length), okj)))
        c = fresh_charge(it, sym, "c")
        ct = TUP2.make(*comps(sym, c)) if sym in PAIR else I(c)
        ext = SymSeq(cs.length + 1, z3.Store(cs.arr, cs.length, ct), ety, "tuple")
        left = it.call(it.getattr(s, "combine"), [StarSeq(ext)])
        inner = it.call(it.getattr(s, "combine"), [StarSeq(cs)])
        right = it.call(it.getattr(s, "combine"), [inner, c])
        # lemma LS1 (append step of the fold) instantiated for the component arrays
        if sym in PAIR:
            for f in ("f0", "f1"):
                ctx.assume(SP(f)(ext.arr, cs.length) == SP(f)(cs.arr, cs.length))  # LS1a: equal prefixes give equal folds
                # ground instance of the fold definition at k = len(cs)
                ctx.assume(SP(f)(ext.arr, cs.length + 1) == SP(f)(ext.arr, cs.length) + TUP2.get(z3.Select(ext.arr, cs.length), f))
        else:
            ctx.assume(S(ext.arr, cs.length) == S(cs.arr, cs.length))
        ctx.oblige(f"{sym}.law.variadic_is_fold_of_binary", charge_eq(sym, left, comps(sym, right)))

    return Task(
        f"C17.{sym}.combine.variadic_fold",
        ["C17"],
        [f"symmetries.{sym}.combine"],
        body,
        axioms=pair_fold_axioms,
        assumes=["lemma LS1a (fold depends only on the first k entries) assumed at one instance; proved in Lean (contracts/lean/Fold.lean) for any additive commutative monoid"],
    )


def _get_symmetry_task():
    def body(it):
        gs = it.module_lookup("symmetries", "get_symmetry")
        for nm in SYMS:
            r = it.call(gs, [nm])
            ok = getattr(r, "cls", None) is not None and r.cls.name == nm
            it.ctx.oblige(f"get_symmetry.{nm}.returns_instance_of_named_class", bool(ok))
            r2 = it.call(gs, [r])
            it.ctx.oblige(f"get_symmetry.{nm}.object_maps_to_same_symmetry", getattr(r2, "cls", None) is r.cls)
            # Symmetry.__eq__ against names and instances
            eqm = it.getattr(r, "__eq__")
            it.ctx.oblige(f"get_symmetry.{nm}.eq_own_name", it.truth(it.call(eqm, [nm])) is True)
            for other in SYMS:
                if other != nm:
                    it.ctx.oblige(f"get_symmetry.{nm}.neq_{other}", it.truth(it.call(eqm, [other])) is False)
                    o = it.call(gs, [other])
                    it.ctx.oblige(f"get_symmetry.{nm}.neq_obj_{other}", it.truth(it.call(eqm, [o])) is False)
        res, exc = check_call(it, "get_symmetry.unknown_name", gs, ["Z3"], post=lambda r: [("must_raise", False)], raises={"ValueError": True})

    return Task("C17.get_symmetry", ["C17", "C16"], ["symmetries.get_symmetry", "symmetries.Symmetry.__eq__"], body)


def tasks():
    out = []
    for sym in SYMS:
        out += _valid_tasks(sym)
        out.append(_combine_variadic_task(sym))
        out.append(_laws_task(sym))
        out.append(_variadic_fold_task(sym))
    out.append(_get_symmetry_task())
    return out
