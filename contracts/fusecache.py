"""Sidecar contract for abelian_core.cached_fuse_block_info (C15, C05, C06, C02): the LRU memo of the
fuse layout.

Model.  `calc_fuse_block_info(self, axes_groups)` is an uninterpreted function CALC of the *cache key
content* KT = (index hash keys, stored sector keys in order, symmetry, axes groups); that its result
depends on nothing else is the business of the frame analysis `key_covers` (C15).  `hasher` is an
injective function H of the key content (A-hash: sha1 of the pickle is collision free).  The global
cache `_fuseinfos` is an arbitrary finite map satisfying the cache invariant

    Inv:  for every stored key k:  _fuseinfos[k] == CALC(H^-1(k))

Proved for every cache content, both size limits symbolic (incl. cache disabled, cache full, array
with too many sectors), every hit / miss path:

  * the value returned is CALC(KT(self, axes_groups)) -- i.e. exactly what an uncached call returns;
  * every uncached computation is the call calc_fuse_block_info(self, axes_groups) with exactly these
    two arguments and no other argument (no mode flags that could change the layout);
  * the key handed to `hasher` is built from exactly the four components, each taken from `self` /
    the argument (none missing, none replaced);
  * Inv holds again afterwards (whatever entry the eviction removes), so the argument is inductive
    over every history of calls;
  * the array itself is not modified.
"""

import z3

from pyvc.core import SV, SymDict, SymObj, TInt, TOpaque, Unsupported
from pyvc.interp import BuiltinVal
from pyvc.task import Task, check_call

from .arrays import IDX, Snapshot, install_hooks, mk_farray

KT = TOpaque("FuseKeyContent")
HASH = TOpaque("HashKey")
INFO = TOpaque("FuseInfo")
GRP = TOpaque("AxesGroups")
HKS = TOpaque("IndexHashKeys")
Q = "abelian_core.cached_fuse_block_info"

CALC = z3.Function("calc_fuse_block_info_of_key", KT.sort(), INFO.sort())
H = z3.Function("hasher", KT.sort(), HASH.sort())
Hinv = z3.Function("hasher_inv", HASH.sort(), KT.sort())
hks = z3.Function("index_hashkeys", IDX.sort(), HKS.sort())


def axioms():
    k = z3.Const("k!kt", KT.sort())
    return [z3.ForAll([k], Hinv(H(k)) == k)]  # A-hash: injective on key contents


def _task():
    def body(it):
        install_hooks(it)
        ctx = it.ctx
        x = mk_farray(it, fermionic=False)
        bl = x.fields["_blocks"]
        bl.size = ctx.fresh("nblocks", TInt)
        ctx.assume(bl.size >= 0)
        snap = Snapshot(x)
        groups = SV(ctx.fresh("axes_groups", GRP), GRP)
        kt = ctx.fresh("key_content", KT)  # the content (hashkeys(x.indices), keys(x.blocks), x.symmetry, groups)

        cache = SymDict(z3.Const("fi_has", z3.ArraySort(HASH.sort(), z3.BoolSort())), z3.Const("fi_val", z3.ArraySort(HASH.sort(), INFO.sort())), HASH, INFO, "_fuseinfos")
        cache.size = ctx.fresh("cache_size", TInt)
        ctx.assume(cache.size >= 0)
        k = z3.Const("k!inv", HASH.sort())

        def inv(c):
            return z3.ForAll([k], z3.Implies(z3.Select(c.has, k), z3.Select(c.val, k) == CALC(Hinv(k))))

        ctx.assume(inv(cache))
        maxsize = ctx.fresh("cache_maxsize", TInt)
        maxsect = ctx.fresh("cache_maxsectors", TInt)
        ctx.assume(maxsize >= 0)
        it.globals[("abelian_core", "_fuseinfos")] = cache
        it.globals[("abelian_core", "_fuseinfo_cache_maxsize")] = SV(maxsize, TInt)
        it.globals[("abelian_core", "_fuseinfo_cache_maxsectors")] = SV(maxsect, TInt)
        for n in ("_fi_missed", "_fi_hit", "_fi_missed_too_long"):
            it.globals[("abelian_core", n)] = SV(ctx.fresh(n, TInt), TInt)

        log = {"calc": [], "hasher": []}

        def calc(it_, a, kw):
            log["calc"].append((list(a), dict(kw)))
            ok = len(a) == 2 and not kw and a[0] is x and isinstance(a[1], SV) and a[1].ty == GRP and z3.eq(a[1].t, groups.t)
            ctx.oblige("cached_fuse_block_info.uncached_computation_is_calc_of_exactly_self_and_axes_groups", bool(ok))
            if not ok:
                raise Unsupported("calc_fuse_block_info called with other arguments")
            return SV(CALC(kt), INFO)

        it.summaries["abelian_core.calc_fuse_block_info"] = calc

        def comp_hook(it_, e, env, kind, it0):
            # tuple(ix.hashkey() for ix in self.indices)
            if isinstance(it0, SV) and it0.ty == IDX:
                import ast

                elt = getattr(e, "elt", None)
                ok = isinstance(elt, ast.Call) and isinstance(elt.func, ast.Attribute) and elt.func.attr == "hashkey" and not elt.args and not getattr(e, "generators", [None])[0].ifs
                if not ok:
                    raise Unsupported("unexpected comprehension over the indices")
                return SV(hks(it0.t), HKS)
            return None

        it.comp_hook = comp_hook
        tok = {}
        orig_tuple = it.builtins["tuple"]

        def tuple_(it_, a, kw):
            if len(a) == 1 and a[0] is bl:
                tok["keys"] = ("sector_keys_in_order", bl.has)
                return tok["keys"]
            if len(a) == 1 and isinstance(a[0], SV) and a[0].ty == HKS:
                return a[0]
            return orig_tuple.fn(it_, a, kw) if hasattr(orig_tuple, "fn") else it_.call(orig_tuple, a, kw)

        it.builtins = dict(it.builtins, tuple=BuiltinVal("tuple", tuple_))

        def hasher(it_, a, kw):
            log["hasher"].append(a)
            ok = len(a) == 1 and not kw and isinstance(a[0], tuple) and len(a[0]) == 4
            if ok:
                c0, c1, c2, c3 = a[0]
                ok = (
                    isinstance(c0, SV) and c0.ty == HKS and z3.eq(c0.t, hks(snap.vals["_indices"].t))
                    and c1 is tok.get("keys") and z3.eq(c1[1], snap.cells["_blocks"][1])
                    and c2 is x.fields["_symmetry"]
                    and isinstance(c3, SV) and c3.ty == GRP and z3.eq(c3.t, groups.t)
                )
            ctx.oblige("cached_fuse_block_info.key_is_built_from_index_hashkeys_sector_keys_symmetry_and_groups", bool(ok))
            if not ok:
                raise Unsupported("cache key has another shape")
            return SV(H(kt), HASH)

        it.summaries["utils.hasher"] = hasher
        it.summaries["abelian_core.hasher"] = hasher

        def post(r):
            c = it.globals[("abelian_core", "_fuseinfos")]
            out = [
                ("returns_the_uncached_result", isinstance(r, SV) and r.ty == INFO and r.t == CALC(kt)),
                ("cache_is_still_the_same_dict_object", c is cache),
                ("cache_invariant_preserved", inv(c) if isinstance(c, SymDict) else False),
                ("at_most_one_uncached_computation", len(log["calc"]) <= 1),
            ]
            out += [("array_" + n, t) for n, t in snap.unchanged()]
            return out

        fn = it.module_lookup("abelian_core", "cached_fuse_block_info")
        check_call(it, "cached_fuse_block_info", fn, [x, groups], post=post)

    return Task(
        "C15.cached_fuse_block_info",
        ["C15", "C05", "C06", "C02"],
        [Q],
        body,
        axioms=axioms,
        assumes=[
            "A-hash: hasher (sha1 of pickle) is injective on key contents",
            "calc_fuse_block_info is a function of the key content only (checked structurally by frames.key_covers)",
            "OrderedDict order abstracted: popitem(last=False) removes SOME stored entry",
        ],
    )


def tasks():
    return [_task()]
