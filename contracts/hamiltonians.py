"""Sidecar contracts for hamiltonians.py and the model term lists (C19, C18).

ghost DEG(edges, k, v) := number of edge ends among the first k edges that touch site v
(with multiplicity):  DEG(e,0,v)=0 ; DEG(e,k+1,v)=DEG(e,k,v)+[a_k==v]+[b_k==v].
"""

import z3

from pyvc.builtins_model import LoopSpec, tuple_type, zlen
from pyvc.core import SV, PyRaise, SymDict, SymObj, SymSeq, TBool, TInt, TOpaque, TReal, TStruct, Unsupported
from pyvc.interp import BuiltinVal, Env, I, R
from pyvc.task import Task, check_call

SITE = TOpaque("Site")
EDGE = TStruct("Edge", [("a", SITE), ("b", SITE)])
EARR = z3.ArraySort(z3.IntSort(), EDGE.sort())
DEG = z3.Function("DEG", EARR, z3.IntSort(), SITE.sort(), z3.IntSort())
PAIRKEY = tuple_type([SITE, SITE])


def ea(e):
    return EDGE.get(e, "a")


def eb(e):
    return EDGE.get(e, "b")


def deg_axioms():
    e = z3.Const("e!ax", EARR)
    k = z3.Int("k!ax")
    v = z3.Const("v!ax", SITE.sort())
    step = DEG(e, k, v) + z3.If(ea(e[k]) == v, 1, 0) + z3.If(eb(e[k]) == v, 1, 0)
    return [
        z3.ForAll([e, v], DEG(e, 0, v) == 0),
        z3.ForAll([e, k, v], z3.Implies(k >= 0, DEG(e, k + 1, v) == step), patterns=[DEG(e, k + 1, v)]),
    ]


def coordination_spec(edges):
    def dict_view(d):
        if isinstance(d, dict):
            assert not d
            return (lambda v: z3.BoolVal(False)), (lambda v: z3.IntVal(0))
        return (lambda v: z3.Select(d.has, v)), (lambda v: z3.Select(d.val, v))

    def inv(it, env, g):
        k = g["k"]
        has, val = dict_view(env.vars["coordinations"])
        v = z3.Const("v!inv", SITE.sort())
        j = z3.Int("j!inv")
        e = edges.arr
        return [
            ("present_iff_touched", z3.ForAll([v], has(v) == (DEG(e, k, v) >= 1))),
            ("count_is_degree_so_far", z3.ForAll([v], z3.Implies(has(v), val(v) == DEG(e, k, v)))),
            ("degree_nonneg", z3.ForAll([v], DEG(e, k, v) >= 0)),
            ("ends_of_processed_edges_present", z3.ForAll([j], z3.Implies(z3.And(j >= 0, j < k), z3.And(DEG(e, k, ea(e[j])) >= 1, DEG(e, k, eb(e[j])) >= 1)))),
        ]

    def lemmas(it, env, gpre):
        k = gpre["k"]
        v = z3.Const("v!lem", SITE.sort())
        e = edges.arr
        return [z3.ForAll([v], DEG(e, k + 1, v) == DEG(e, k, v) + z3.If(ea(e[k]) == v, 1, 0) + z3.If(eb(e[k]) == v, 1, 0))]

    return LoopSpec(carried={"coordinations": ("dict", SITE, TInt)}, invariant=inv, step_lemmas=lemmas)


COEF_KINDS = ("scalar", "dict", "callable")


def mk_edge_coeff(it, kind, name):
    """returns (python-level argument, spec fn (a,b)->real term, may_raise)"""
    ctx = it.ctx
    if kind == "scalar":
        t = ctx.fresh(name, TReal)
        return SV(t, TReal), (lambda a, b: t), None
    if kind == "callable":
        f = z3.Function(name + "_fn", SITE.sort(), SITE.sort(), z3.RealSort())
        o = SymObj(None, {"$callable": True}, tag=name)
        o.fields["__call__"] = BuiltinVal(name, lambda it_, a, k: SV(f(a[0].t, a[1].t), TReal))
        return o, (lambda a, b: f(a, b)), None
    d = SymDict(
        z3.Const(ctx.fresh_name(name + "_has"), z3.ArraySort(PAIRKEY.sort(), z3.BoolSort())),
        z3.Const(ctx.fresh_name(name + "_val"), z3.ArraySort(PAIRKEY.sort(), z3.RealSort())),
        PAIRKEY,
        TReal,
        name,
    )

    def spec(a, b):
        k1, k2 = PAIRKEY.make(a, b), PAIRKEY.make(b, a)
        return z3.If(z3.Select(d.has, k1), z3.Select(d.val, k1), z3.Select(d.val, k2))

    def present(a, b):
        return z3.Or(z3.Select(d.has, PAIRKEY.make(a, b)), z3.Select(d.has, PAIRKEY.make(b, a)))

    return d, spec, present


def mk_node_coeff(it, kind, name):
    ctx = it.ctx
    if kind == "scalar":
        t = ctx.fresh(name, TReal)
        return SV(t, TReal), (lambda a: t), None
    if kind == "callable":
        f = z3.Function(name + "_fn", SITE.sort(), z3.RealSort())
        o = SymObj(None, {"$callable": True}, tag=name)
        o.fields["__call__"] = BuiltinVal(name, lambda it_, a, k: SV(f(a[0].t), TReal))
        return o, (lambda a: f(a)), None
    d = SymDict(
        z3.Const(ctx.fresh_name(name + "_has"), z3.ArraySort(SITE.sort(), z3.BoolSort())),
        z3.Const(ctx.fresh_name(name + "_val"), z3.ArraySort(SITE.sort(), z3.RealSort())),
        SITE,
        TReal,
        name,
    )
    return d, (lambda a: z3.Select(d.val, a)), (lambda a: z3.Select(d.has, a))


def _from_edges_task(model, ekind, nkind):
    """model: 'spinful' (t edge; U, mu node) or 'spinless' (t, V edge; mu node)"""
    fname = "ham_fermi_hubbard_from_edges" if model == "spinful" else "ham_fermi_hubbard_spinless_from_edges"
    Q = "hamiltonians." + fname
    callee = "fermionic_local_operators." + ("fermi_hubbard_local_array" if model == "spinful" else "fermi_hubbard_spinless_local_array")

    def body(it):
        ctx = it.ctx
        n = ctx.fresh("n_edges", TInt)
        ctx.assume(n >= 0)
        edges = SymSeq(n, z3.Const("edges", EARR), EDGE, "tuple")
        it.loop_specs[(Q, 0)] = coordination_spec(edges)
        t_arg, t_spec, t_present = mk_edge_coeff(it, ekind, "t")
        if model == "spinful":
            U_arg, U_spec, U_present = mk_node_coeff(it, nkind, "U")
        else:
            U_arg, U_spec, U_present = mk_edge_coeff(it, ekind, "V")
        mu_arg, mu_spec, mu_present = mk_node_coeff(it, nkind, "mu")
        sym_tok = "U1"
        like_tok = "numpy"
        calls = []

        def local_array(it_, a, k):
            calls.append((a, k))
            return SymObj(None, {"$local_term": len(calls)}, tag="term")

        it.summaries[callee] = local_array
        kq = ctx.fresh("k_edge", TInt)  # an arbitrary edge
        state = {}

        def comp_hook(it_, e, env, kind, it0):
            if kind != "dict" or it0 is not edges:
                return None
            ctx.assume(z3.And(kq >= 0, kq < n))
            env3 = Env(env)
            el = z3.Select(edges.arr, kq)
            it_.assign(e.generators[0].target, it_.lift(el, EDGE), env3)
            key = it_.eval_expr(e.key, env3)
            val = it_.eval_expr(e.value, env3)
            state["entry"] = (key, val)
            return SymObj(None, {"$arbitrary_entry": True}, tag="result")

        it.comp_hook = comp_hook
        fn = it.module_lookup("hamiltonians", fname)
        el = z3.Select(edges.arr, kq)
        a, b = ea(el), eb(el)
        # KeyError is legitimate only when a dict-valued coefficient lacks the bond (either orientation) / site
        allowed = []
        if t_present:
            allowed.append(z3.Not(t_present(a, b)))
        if model == "spinless" and U_present:
            allowed.append(z3.Not(U_present(a, b)))
        if model == "spinful" and U_present:
            allowed += [z3.Not(U_present(a)), z3.Not(U_present(b))]
        if mu_present:
            allowed += [z3.Not(mu_present(a)), z3.Not(mu_present(b))]
        raises = {"KeyError": z3.Or(*allowed)} if allowed else {}

        def post(r):
            out = [("one_entry_per_edge_evaluated", "entry" in state and len(calls) == 1)]
            if "entry" not in state or len(calls) != 1:
                return out
            key, val = state["entry"]
            cargs, ck = calls[0]
            e = edges.arr
            out.append(("key_is_the_edge", isinstance(key, tuple) and len(key) == 2 and z3.And(key[0].t == a, key[1].t == b)))
            out.append(("symmetry_forwarded", bool(cargs) and cargs[0] == sym_tok))
            out.append(("backend_forwarded", ck.get("like") == like_tok))
            tt = ck.get("t")
            out.append(("hopping_is_this_bonds_coefficient", isinstance(tt, SV) and R(tt) == t_spec(a, b)))
            if model == "spinful":
                UU = ck.get("U")
                out.append(("U_is_pair_of_site_values", isinstance(UU, tuple) and len(UU) == 2 and z3.And(R(UU[0]) == U_spec(a), R(UU[1]) == U_spec(b))))
            else:
                VV = ck.get("V")
                out.append(("V_is_this_bonds_coefficient", isinstance(VV, SV) and R(VV) == U_spec(a, b)))
            mm = ck.get("mu")
            out.append(("mu_is_pair_of_site_values", isinstance(mm, tuple) and len(mm) == 2 and z3.And(R(mm[0]) == mu_spec(a), R(mm[1]) == mu_spec(b))))
            cc = ck.get("coordinations")
            okc = isinstance(cc, tuple) and len(cc) == 2
            out.append(("coordinations_are_final_degrees", okc and z3.And(I(cc[0]) == DEG(e, n, a), I(cc[1]) == DEG(e, n, b))))
            out.append(("coordinations_positive", okc and z3.And(I(cc[0]) >= 1, I(cc[1]) >= 1)))
            return out

        kw = {"t": t_arg, "mu": mu_arg, "like": like_tok}
        kw["U" if model == "spinful" else "V"] = U_arg
        check_call(it, f"{fname}[{ekind},{nkind}]", fn, [sym_tok, edges], kw, post=post, raises=raises)

    return Task(
        f"C19.{fname}.{ekind}.{nkind}",
        ["C19"],
        [Q, "hamiltonians.make_edge_factory", "hamiltonians.make_node_factory"],
        body,
        axioms=deg_axioms,
        assumes=["dict comprehension over the edge list evaluated at one arbitrary edge index k (A-builtins: a comprehension evaluates its element expression once per item, in order)", "callee contract of the local-array builder: contracts/hamiltonians.py term-list tasks"],
    )


# ----------------------------------------------------------------------------
# term lists of the two-site builders


def _word(ops):
    out = []
    for o in ops:
        if not isinstance(o, SymObj):
            return None
        out.append((o.fields.get("_label"), bool(o.fields.get("_dual"))))
    return tuple(out)


def _terms_task(model, pairs):
    fname = "fermi_hubbard_local_array" if model == "spinful" else "fermi_hubbard_spinless_local_array"
    Q = "fermionic_local_operators." + fname

    def body(it):
        ctx = it.ctx
        t = ctx.fresh("t", TReal)
        za, zb = ctx.fresh("za", TInt), ctx.fresh("zb", TInt)
        ctx.assume(z3.And(za >= 1, zb >= 1))
        if pairs:
            Ua, Ub, mua, mub = (ctx.fresh(nm, TReal) for nm in ("Ua", "Ub", "mua", "mub"))
            U_arg, mu_arg = (SV(Ua, TReal), SV(Ub, TReal)), (SV(mua, TReal), SV(mub, TReal))
        else:
            Ua = Ub = ctx.fresh("U", TReal)
            mua = mub = ctx.fresh("mu", TReal)
            U_arg, mu_arg = SV(Ua, TReal), SV(mua, TReal)
        got = {}

        def builder(it_, a, k):
            got["args"] = (a, k)
            return SymObj(None, {}, tag="array")

        it.summaries["fermionic_local_operators.build_local_fermionic_array"] = builder
        fn = it.module_lookup("fermionic_local_operators", fname)
        D, N = True, False  # dual (creation, '+') / non-dual (annihilation)
        if model == "spinful":
            hop = [(("au", D), ("bu", N)), (("bu", D), ("au", N)), (("ad", D), ("bd", N)), (("bd", D), ("ad", N))]
            expected = [(-t, w) for w in hop] + [
                (Ua / z3.ToReal(za), (("au", D), ("au", N), ("ad", D), ("ad", N))),
                (Ub / z3.ToReal(zb), (("bu", D), ("bu", N), ("bd", D), ("bd", N))),
                (-mua / z3.ToReal(za), (("au", D), ("au", N))),
                (-mua / z3.ToReal(za), (("ad", D), ("ad", N))),
                (-mub / z3.ToReal(zb), (("bu", D), ("bu", N))),
                (-mub / z3.ToReal(zb), (("bd", D), ("bd", N))),
            ]
            bases_expected = (
                ((), (("ad", D),), (("au", D),), (("au", D), ("ad", D))),
                ((), (("bd", D),), (("bu", D),), (("bu", D), ("bd", D))),
            )
            kw = {"t": SV(t, TReal), "U": U_arg, "mu": mu_arg, "coordinations": (SV(za, TInt), SV(zb, TInt))}
        else:
            V = Ua
            expected = [
                (-t, (("a", D), ("b", N))),
                (-t, (("b", D), ("a", N))),
                (V, (("a", D), ("a", N), ("b", D), ("b", N))),
                (-mua / z3.ToReal(za), (("a", D), ("a", N))),
                (-mub / z3.ToReal(zb), (("b", D), ("b", N))),
            ]
            bases_expected = (((), (("a", D),)), ((), (("b", D),)))
            kw = {"t": SV(t, TReal), "V": SV(V, TReal), "mu": mu_arg, "coordinations": (SV(za, TInt), SV(zb, TInt))}

        def post(r):
            if "args" not in got:
                return [("calls_array_builder", False)]
            a, k = got["args"]
            terms, bases, symmetry = a[0], a[1], a[2]
            out = [("symmetry_forwarded", symmetry == "U1"), ("number_of_terms", len(terms) == len(expected))]
            words = [(_word(w), c) for c, w in terms]
            for idx, (coef, w) in enumerate(expected):
                matches = [c for ww, c in words if ww == w]
                out.append((f"term_{idx}_{'_'.join(l + ('+' if d else '-') for l, d in w)}_present_once", len(matches) == 1))
                if len(matches) == 1:
                    out.append((f"term_{idx}_coefficient", R(matches[0]) == coef))
            gb = tuple(tuple(_word(st) for st in basis) for basis in bases)
            out.append(("bases_as_documented", gb == bases_expected))
            im = k.get("index_maps")
            want = [0, 1, 1, 2] if model == "spinful" else [0, 1]
            out.append(("index_maps_are_particle_number", isinstance(im, list) and len(im) == 2 and all(list(m) == want for m in im)))
            return out

        check_call(it, f"{fname}[{'pairs' if pairs else 'scalars'}]", fn, ["U1"], kw, post=post)

    return Task(f"C19.{fname}.terms.{'pairs' if pairs else 'scalars'}", ["C19", "C18"], [Q, "fermionic_local_operators.FermionicOperator.dag"], body, assumes=["A-float: coefficients are real numbers"])


def _indexmap_task():
    def body(it):
        spinless = it.module_lookup("fermionic_local_operators", "get_spinless_charge_indexmap")
        spinful = it.module_lookup("fermionic_local_operators", "get_spinful_charge_indexmap")
        # documented bases: spinless (|0>, a+|0>) ; spinful (|00>, ad+|00>, au+|00>, au+ad+|00>)
        occ_spinless = [0, 1]
        occ_spinful = [(0, 0), (0, 1), (1, 0), (1, 1)]  # (n_up, n_down)
        ob = it.ctx.oblige
        ob("indexmap.spinless.Z2_is_parity", it.call(spinless, ["Z2"]) == [n % 2 for n in occ_spinless])
        ob("indexmap.spinless.U1_is_number", it.call(spinless, ["U1"]) == occ_spinless)
        ob("indexmap.spinful.Z2_is_parity", it.call(spinful, ["Z2"]) == [(u + d) % 2 for u, d in occ_spinful])
        ob("indexmap.spinful.U1_is_number", it.call(spinful, ["U1"]) == [u + d for u, d in occ_spinful])
        ob("indexmap.spinful.Z2Z2_is_spin_resolved", it.call(spinful, ["Z2Z2"]) == occ_spinful)
        ob("indexmap.spinful.U1U1_is_spin_resolved", it.call(spinful, ["U1U1"]) == occ_spinful)
        for f, nm in ((spinless, "spinless"), (spinful, "spinful")):
            check_call(it, f"indexmap.{nm}.unknown_symmetry", f, ["Z3"], post=lambda r: [("must_raise", False)], raises={"ValueError": True})
        check_call(it, "indexmap.spinless.pair_symmetry_rejected", spinless, ["Z2Z2"], post=lambda r: [("must_raise", False)], raises={"ValueError": True})

    return Task("C18.charge_indexmaps", ["C18", "C19"], ["fermionic_local_operators.get_spinless_charge_indexmap", "fermionic_local_operators.get_spinful_charge_indexmap"], body)


def _onsite_total_task():
    """lemma: a site of degree z >= 1 whose on-site coefficient c is divided by z on each of its z bonds totals c"""

    def body(it):
        c = it.ctx.fresh("c", TReal)
        z = it.ctx.fresh("z", TInt)
        it.ctx.assume(z >= 1)
        it.ctx.oblige("onsite_terms_total_site_coefficient", z3.ToReal(z) * (c / z3.ToReal(z)) == c)

    return Task("C19.lemma.onsite_total", ["C19"], [], body, assumes=["A-float"])


def tasks():
    out = []
    for model in ("spinful", "spinless"):
        for ek in COEF_KINDS:
            for nk in COEF_KINDS:
                out.append(_from_edges_task(model, ek, nk))
        for pairs in (True, False):
            out.append(_terms_task(model, pairs))
    out += [_indexmap_task(), _onsite_total_task()]
    return out
