"""Sidecar contracts for the fermionic wrappers around the abelian block operations (C03, C05, C06, C09, C14):
FermionicArray.fuse, unfuse, einsum, trace, __matmul__, to_dense, allclose.

Each of these is a SIGN PIPELINE followed by the abelian operation on raw blocks.  The callees are replaced by
their contracts (sign-table operations: contracts/phases.py, fermi_ops.py; abelian operations: fuse_entry.py,
einsum.py, contraction.py; label resolution: oddpos.py); what is proved here is the orchestration, taken from the
property statements:

  * raw blocks are only ever read from a SYNCHRONISED array (C09), the operand is only touched when `inplace`
    was asked for (C14);
  * trace / matmul / einsum (C03): a contracted pair that meets as ket-then-bra gets the parity sign exactly once;
    einsum brings every traced pair adjacent as (bra, ket) in front of the kept axes by ONE fermionic transpose and
    hands the correspondingly permuted equation to the abelian einsum;
  * fuse (C05 / C06): one fermionic transpose that makes the groups contiguous in the order calc_fuse_group_info
    gives; for every group whose fused index is dual (first axis dual): parity flip of exactly its non-dual members
    and a virtual reversal of exactly its positions; then synchronise; then the abelian _fuse_core with the
    re-numbered groups; empty groups expanded afterwards;
  * unfuse: synchronise first, abelian unfuse, then -- for a dual fused index -- the same flip set and the same
    reversal (both involutions: fuse followed by unfuse is the identity on the sign table).

Enumerated over ranks, direction patterns (concrete) and group families; blocks never enter.
"""

import itertools

import z3

from pyvc.core import SV, PyRaise, SymObj, TBool
from pyvc.interp import BuiltinVal
from pyvc.task import Task, thorough

FA = "fermionic_core.FermionicArray"
SIGN_OPS = ("transpose", "phase_flip", "phase_transpose", "phase_sync", "phase_global")


def mk_ix(name, dual, subduals=None):
    ix = SymObj(None, {"dual": dual}, tag=name)
    if subduals is not None:
        ix.fields["subinfo"] = SymObj(None, {"indices": tuple(SymObj(None, {"dual": d}, tag=f"{name}_sub{i}") for i, d in enumerate(subduals))}, tag=name + "_subinfo")
    else:
        ix.fields["subinfo"] = None
    return ix


class Arr:
    """a fermionic array stand-in: directions are concrete, every sign operation is logged and -- when called
    out of place -- returns a fresh stand-in; `transpose` permutes the directions"""

    def __init__(self, it, name, indices, log, world):
        self.it, self.name, self.log, self.world = it, name, log, world
        self.synced = False
        o = SymObj(it.get_class("fermionic_core", "FermionicArray"), tag=name)
        self.obj = o
        world[id(o)] = self
        self.set_indices(indices)
        for m in SIGN_OPS:
            o.fields[m] = BuiltinVal(f"{name}.{m}", self._mk(m))
        o.fields["copy"] = BuiltinVal(f"{name}.copy", self._copy)
        for m in ("_fuse_core", "expand_dims"):
            o.fields[m] = BuiltinVal(f"{name}.{m}", self._mk_plain(m))

    def set_indices(self, indices):
        self.indices = tuple(indices)
        self.obj.fields["indices"] = self.indices
        self.obj.fields["ndim"] = len(self.indices)
        self.obj.fields["duals"] = tuple(ix.fields["dual"] for ix in self.indices)

    def _clone(self, suffix):
        c = Arr(self.it, self.name + suffix, self.indices, self.log, self.world)
        c.synced = self.synced
        return c

    def _copy(self, it_, a, k):
        c = self._clone("'")
        self.log.append((self.name, "copy", (), {}, c.name))
        return c.obj

    def _mk(self, m):
        def f(it_, a, k):
            inplace = bool(k.get("inplace", False))
            tgt = self if inplace else self._clone("'")
            self.log.append((self.name, m, tuple(a), dict(k), tgt.name))
            if m == "transpose":
                perm = a[0] if a else k.get("axes")
                if perm is None:
                    perm = tuple(reversed(range(len(self.indices))))
                tgt.set_indices(tuple(self.indices[p] for p in perm))
            if m == "phase_sync":
                tgt.synced = True
            elif m != "copy":
                tgt.synced = False  # any sign operation leaves pending signs
            return tgt.obj

        return f

    def _mk_plain(self, m):
        def f(it_, a, k):
            self.log.append((self.name, m, tuple(a), dict(k), self.name))
            return self.obj

        return f


def calls(log, who=None, what=None):
    return [e for e in log if (who is None or e[0] == who) and (what is None or e[1] == what)]


def composed(perms, n):
    """composition of virtual transpositions applied one after the other (tuple or None if malformed)"""
    tot = list(range(n))
    for p in perms:
        if not (isinstance(p, tuple) and sorted(p) == list(range(n))):
            return None
        tot = [tot[i] for i in p]
    return tuple(tot)


def odd_axes(flips):
    """axes that are parity-flipped an odd number of times (a flip is an involution)"""
    cnt = {}
    for e in flips:
        for a in e[2]:
            cnt[a] = cnt.get(a, 0) + 1
    return sorted(a for a, c in cnt.items() if c % 2)


def untouched(log, name):
    """nothing was ever done IN PLACE to the array called `name`"""
    return all(not (e[0] == name and e[4] == name and e[1] not in ("copy",)) for e in log)


# ---------------------------------------------------------------------------------------------------- trace


def _trace_task():
    def body(it):
        ctx = it.ctx
        pick = ctx.decide(4, None, "duals")
        dl, dr = bool(pick & 1), bool(pick & 2)
        log, world = [], {}
        x = Arr(it, "x", [mk_ix("l", dl), mk_ix("r", dr)], log, world)
        seen = []

        def atrace(it_, a, k):
            seen.append(a[0])
            return "TRACE"

        it.summaries["abelian_core.AbelianArray.trace"] = atrace
        m, _ = x.obj.cls.lookup("trace")
        tag = f"fermionic_trace[dual=({dl},{dr})]"
        ob = ctx.oblige
        try:
            r = it.call(m, [x.obj], {})
        except PyRaise as e:
            ob(tag + ".raises_ValueError_only_for_equal_directions", e.exc == "ValueError" and dl == dr)
            ob(tag + ".operand_untouched", untouched(log, "x"))
            return
        ob(tag + ".returns_for_opposite_directions_only", dl != dr)
        ob(tag + ".delegates_once_to_the_abelian_trace", len(seen) == 1 and r == "TRACE")
        if len(seen) != 1:
            return
        y = world.get(id(seen[0]))
        ob(tag + ".raw_blocks_read_from_a_synchronised_array", y is not None and y.synced)
        ob(tag + ".operand_untouched", untouched(log, "x") and y is not x)
        flips = calls(log, what="phase_flip")
        # the pair meets as ket-then-bra exactly when the LEFT index is a ket (non-dual)
        ob(tag + ".parity_sign_exactly_when_the_pair_meets_as_ket_then_bra", (len(odd_axes(flips)) == 1) == (not dl) and len(odd_axes(flips)) <= 1)
        if flips:
            ob(tag + ".flip_is_on_one_leg_of_the_pair", all(e[2] in ((0,), (1,)) for e in flips))
        ob(tag + ".no_other_sign_operation", all(e[1] in ("phase_flip", "phase_sync") for e in log))

    return Task("C03.fermionic_trace.orchestration", ["C03", "C09", "C14"], [FA + ".trace"], body, assumes=["callee contracts: phase_flip / phase_sync (contracts/phases.py), AbelianArray.trace (contracts/einsum.py)"])


# ---------------------------------------------------------------------------------------------------- to_dense / allclose


def _dense_task():
    def body(it):
        ctx = it.ctx
        log, world = [], {}
        x = Arr(it, "x", [mk_ix("i0", False), mk_ix("i1", True)], log, world)
        y = Arr(it, "y", [mk_ix("j0", False), mk_ix("j1", True)], log, world)
        seen = []
        it.summaries["abelian_core.AbelianArray.to_dense"] = lambda it_, a, k: (seen.append(("to_dense", a, k)) or "DENSE")
        it.summaries["abelian_core.AbelianArray.allclose"] = lambda it_, a, k: (seen.append(("allclose", a, k)) or "VERDICT")
        ob = ctx.oblige
        m, _ = x.obj.cls.lookup("to_dense")
        r = it.call(m, [x.obj], {})
        ok = len(seen) == 1 and seen[0][0] == "to_dense"
        ob("fermionic_to_dense.delegates_once", ok and r == "DENSE")
        if ok:
            z = world.get(id(seen[0][1][0]))
            ob("fermionic_to_dense.densifies_a_synchronised_copy", z is not None and z.synced and z is not x)
        ob("fermionic_to_dense.operand_untouched_and_only_synchronised", untouched(log, "x") and all(e[1] == "phase_sync" for e in log))
        del seen[:], log[:]
        m, _ = x.obj.cls.lookup("allclose")
        tol = SymObj(None, tag="rtol")
        r = it.call(m, [x.obj, y.obj], {"rtol": tol})
        ok = len(seen) == 1 and seen[0][0] == "allclose"
        ob("fermionic_allclose.delegates_once", ok and r == "VERDICT")
        if ok:
            a = seen[0][1]
            za, zb = world.get(id(a[0])), world.get(id(a[1])) if len(a) > 1 else None
            ob("fermionic_allclose.compares_synchronised_copies_of_both_operands_in_order", za is not None and zb is not None and za.synced and zb.synced and za.name == "x'" and zb.name == "y'")
            ob("fermionic_allclose.tolerances_forwarded", seen[0][2].get("rtol") is tol)
        ob("fermionic_allclose.operands_untouched", untouched(log, "x") and untouched(log, "y"))

    return Task("C09.fermionic_to_dense_allclose.orchestration", ["C09", "C03", "C14", "C16"], [FA + ".to_dense", FA + ".allclose"], body, assumes=["callee contracts: phase_sync (contracts/phases.py); AbelianArray.to_dense / allclose: bounded tier"])


# ---------------------------------------------------------------------------------------------------- matmul


def _matmul_task():
    def body(it):
        ctx = it.ctx
        cases = [(na, nb) for na in (1, 2, 3) for nb in (1, 2, 3)]
        na, nb = cases[ctx.decide(len(cases), None, "ranks")]
        d_in = bool(ctx.decide(2, None, "inner_dual"))  # direction of other's first leg; self's last leg is opposite
        log, world = [], {}
        a = Arr(it, "a", [mk_ix(f"a{i}", (not d_in) if i == na - 1 else bool(i % 2)) for i in range(na)], log, world)
        b = Arr(it, "b", [mk_ix(f"b{i}", d_in if i == 0 else bool((i + 1) % 2)) for i in range(nb)], log, world)
        cnd = na + nb - 2
        c = Arr(it, "c", [mk_ix(f"c{i}", False) for i in range(cnd)], log, world)
        has_scalar = ctx.fresh("has_scalar_block", TBool)
        reads = []

        def c_get(it_, obj, key):
            reads.append(c.synced)
            if it_.ctx.branch(has_scalar, "scalar"):
                return "SCALAR"
            raise PyRaise("KeyError", "()")

        c.obj.fields["blocks"] = SymObj(None, {"$getitem": c_get}, tag="c_blocks")
        mm, rs = [], []
        it.summaries["abelian_core.AbelianArray.__matmul__"] = lambda it_, args, k: (mm.append((args, k, len(log))) or c.obj)
        it.summaries["fermionic_core.resolve_combined_oddpos"] = lambda it_, args, k: rs.append((args, len(log), len(mm)))
        m, _ = a.obj.cls.lookup("__matmul__")
        tag = f"fermionic_matmul[{na},{nb},inner_dual={d_in}]"
        ob = ctx.oblige
        try:
            r = it.call(m, [a.obj, b.obj], {})
        except PyRaise as e:
            ob(tag + ".raises_ValueError_only_above_rank_two", e.exc == "ValueError" and (na > 2 or nb > 2))
            ob(tag + ".nothing_done_before_raising", not log and not mm)
            return
        ob(tag + ".returns_only_up_to_rank_two", na <= 2 and nb <= 2)
        ob(tag + ".one_abelian_product_with_the_array_preserved", len(mm) == 1 and mm[0][1].get("preserve_array") is True)
        if len(mm) != 1:
            return
        args = mm[0][0]
        za, zb = world.get(id(args[0])), world.get(id(args[1]))
        ob(tag + ".product_of_synchronised_copies_in_order", za is not None and zb is not None and za.synced and zb.synced and za.name.startswith("a'") and zb.name.startswith("b'"))
        ob(tag + ".operands_untouched", untouched(log, "a") and untouched(log, "b"))
        flips = calls(log, what="phase_flip")
        # pair = (a's last leg, b's first leg): ket-then-bra  <=>  b's first leg is dual
        ob(tag + ".parity_sign_exactly_when_the_pair_meets_as_ket_then_bra", (len(flips) % 2 == 1) == d_in)
        if flips:
            ob(tag + ".flip_is_on_the_contracted_leg_of_one_operand_before_the_product", all((f[0].startswith("b") and f[2] == (0,)) or (f[0].startswith("a") and f[2] in ((na - 1,), (-1,))) for f in flips))
        ob(tag + ".no_sign_operation_on_the_operands_other_than_flip_and_sync", all(e[1] in ("phase_flip", "phase_sync") for e in log if not e[0].startswith("c")))
        ob(tag + ".labels_resolved_once_after_the_product_with_the_contracted_copies", len(rs) == 1 and rs[0][2] == 1 and rs[0][0][0] is args[0] and rs[0][0][1] is args[1] and rs[0][0][2] is c.obj)
        if cnd == 0:
            ob(tag + ".scalar_read_once_after_pending_signs_are_multiplied_in", reads == [True] and len(rs) == 1 and all(e[1] != "phase_sync" or i >= rs[0][1] for i, e in enumerate(log) if e[0] == "c"))
            if r == "SCALAR":
                ob(tag + ".returns_scalar_block", has_scalar)
            elif isinstance(r, float) and r == 0.0:
                ob(tag + ".zero_when_nothing_aligned", z3.Not(has_scalar))
            else:
                ob(tag + ".scalar_result_kind", False)
        else:
            ob(tag + ".returns_the_product_array", r is c.obj)

    return Task(
        "C03.fermionic_matmul.orchestration",
        ["C03", "C09", "C14", "C04"],
        [FA + ".__matmul__"],
        body,
        assumes=["callee contracts: phase_flip / phase_sync (contracts/phases.py), AbelianArray.__matmul__ (contracts/contraction.py), resolve_combined_oddpos (contracts/oddpos.py)", "matching contracted legs have opposite directions (Valid contraction)"],
    )


# ---------------------------------------------------------------------------------------------------- einsum


def _einsum_cases():
    eqs = ["ab->ba", "aa->", "abb->a", "aba->b", "abcb->ca", "abab->", "abc->cab"]
    if thorough():
        eqs += ["abca->cb", "aabb->", "abcd->dbca", "abba->"]
    out = []
    for eq in eqs:
        lhs, rhs = eq.split("->")
        n = len(lhs)
        for bits in range(2**n):
            duals = [bool(bits >> i & 1) for i in range(n)]
            # Valid trace: the two legs of a traced pair have opposite directions
            ok = True
            for q in set(lhs):
                js = [j for j, z in enumerate(lhs) if z == q]
                if q not in rhs and (len(js) != 2 or duals[js[0]] == duals[js[1]]):
                    ok = False
            if ok:
                out.append((eq, tuple(duals)))
    return out


def _einsum_task():
    def body(it):
        ctx = it.ctx
        cases = _einsum_cases()
        eq, duals = cases[ctx.decide(len(cases), None, "case")]
        preserve = bool(ctx.decide(2, None, "preserve"))
        lhs, rhs = eq.split("->")
        n = len(lhs)
        log, world = [], {}
        x = Arr(it, "x", [mk_ix(f"i{j}", duals[j]) for j in range(n)], log, world)
        seen = []
        it.summaries["abelian_core.AbelianArray.einsum"] = lambda it_, a, k: (seen.append((a, k)) or "RESULT")
        m, _ = x.obj.cls.lookup("einsum")
        tag = f"fermionic_einsum[{eq},duals={''.join('-' if d else '+' for d in duals)},preserve={preserve}]"
        ob = ctx.oblige
        r = it.call(m, [x.obj, eq], {"preserve_array": preserve})
        ok = len(seen) == 1 and r == "RESULT"
        ob(tag + ".delegates_once_to_the_abelian_einsum", ok)
        if not ok:
            return
        args, kw = seen[0]
        y = world.get(id(args[0]))
        ob(tag + ".raw_blocks_read_from_a_synchronised_array", y is not None and y.synced)
        ob(tag + ".operand_untouched", untouched(log, "x") and y is not x)
        ob(tag + ".preserve_array_forwarded", (kw.get("preserve_array") if "preserve_array" in kw else (args[2] if len(args) > 2 else None)) is preserve)
        trs = calls(log, what="transpose")
        ob(tag + ".at_most_one_fermionic_transpose_and_no_other_sign_operation", len(trs) <= 1 and all(e[1] in ("transpose", "phase_sync", "copy") for e in log) and all(e[0] == "x" for e in trs))
        if len(trs) > 1:
            return
        # no transpose at all is the identity permutation
        perm = tuple(range(n)) if not trs else (trs[0][2][0] if trs[0][2] else trs[0][3].get("axes"))
        okp = isinstance(perm, tuple) and sorted(perm) == list(range(n))
        ob(tag + ".transposes_by_a_permutation", okp)
        if not okp:
            return
        new_eq = args[1] if len(args) > 1 else kw.get("eq")
        okq = isinstance(new_eq, str) and "->" in new_eq
        ob(tag + ".equation_handed_on_is_a_string", okq)
        if not okq:
            return
        nl, nr = new_eq.split("->")
        ob(tag + ".equation_letters_permuted_like_the_axes_output_unchanged", nl == "".join(lhs[p] for p in perm) and nr == rhs)
        traced = [q for q in dict.fromkeys(lhs) if q not in rhs]
        nt = 2 * len(traced)
        # after the transpose: traced pairs adjacent in front, each as (bra, ket); kept axes behind, in output order
        pairs_ok = all(nl[2 * i] == nl[2 * i + 1] and nl[2 * i] in traced and duals[perm[2 * i]] is True and duals[perm[2 * i + 1]] is False for i in range(len(traced))) and len(set(nl[:nt])) == len(traced)
        ob(tag + ".traced_pairs_adjacent_in_front_each_as_bra_then_ket", pairs_ok)
        ob(tag + ".kept_axes_behind_in_output_order", nl[nt:] == rhs)

    return Task(
        "C03.fermionic_einsum.orchestration",
        ["C03", "C09", "C14"],
        [FA + ".einsum"],
        body,
        assumes=["callee contracts: FermionicArray.transpose (contracts/fermi_ops.py), phase_sync (phases.py), AbelianArray.einsum (contracts/einsum.py)", "traced legs have opposite directions (Valid trace)"],
        bounded_rank="enumerated equations (rank <= 4), every admissible direction pattern",
    )


# ---------------------------------------------------------------------------------------------------- fuse / unfuse


def _fuse_cases():
    fams = []
    for nd in (2, 3, 4):
        axes = list(range(nd))
        # one group of 2..nd axes in some orders, two groups, with an empty group
        for k in range(1, nd + 1):
            for g in itertools.permutations(axes, k):
                if k >= 2 and g != tuple(sorted(g)) and g != tuple(sorted(g, reverse=True)) and not thorough():
                    if (sum(i * x for i, x in enumerate(g)) + nd) % 3:
                        continue
                fams.append((nd, (g,)))
        if nd >= 3:
            fams.append((nd, ((0, 1), (2,))))
            fams.append((nd, ((2, 0), (1,))))
            fams.append((nd, ((), (1, 2))))
        if nd == 4:
            fams += [(4, ((0, 1), (2, 3))), (4, ((3, 1), (0, 2))), (4, ((1, 2), (), (3, 0))), (4, ((2,), (0, 3)))]
    return fams


def _expected_fuse(nd, groups, duals):
    """independent statement of the sign pipeline of a fermionic fuse, from the docstring / property:
    layout [unfused axes before the first group's first axis ..., groups at the position of their smallest first
    axis ...] is taken from the transposition actually requested (checked to make the groups contiguous and to
    keep the other axes in order); here: the flips and the virtual permutation for given contiguous groups"""
    return None


def _fuse_task(inplace):
    def body(it):
        ctx = it.ctx
        fams = _fuse_cases()
        nd, groups = fams[ctx.decide(len(fams), None, "groups")]
        bits = ctx.decide(2**nd, None, "duals")
        duals = tuple(bool(bits >> i & 1) for i in range(nd))
        log, world = [], {}
        x = Arr(it, "x", [mk_ix(f"i{j}", duals[j]) for j in range(nd)], log, world)
        orig = x.indices
        m, _ = x.obj.cls.lookup("fuse")
        tag = f"fermionic_fuse[ndim={nd},groups={groups},duals={''.join('-' if d else '+' for d in duals)},inplace={inplace}]".replace(" ", "")
        ob = ctx.oblige
        r = it.call(m, [x.obj, *groups], {"inplace": inplace})
        w = world.get(id(r))
        ob(tag + ".returns_an_array", w is not None)
        if w is None:
            return
        if inplace:
            ob(tag + ".in_place_returns_the_receiver", w is x)
        else:
            ob(tag + ".out_of_place_works_on_a_copy_operand_untouched", w is not x and untouched(log, "x") and w.name == "x'" and all(e[0] in ("x", "x'") for e in log))
        work = w.name
        ops = [e for e in log if e[0] == work and e[1] != "copy"]
        ob(tag + ".every_step_in_place_on_the_working_array", all(e[4] == work for e in ops))
        nonempty = tuple(g for g in groups if g)
        order = [e[1] for e in ops]
        # 1. one fermionic transpose making the groups contiguous
        trs = [e for e in ops if e[1] == "transpose"]
        ob(tag + ".at_most_one_fermionic_transpose_before_everything_else", len(trs) <= 1 and (not trs or order[0] == "transpose"))
        if len(trs) > 1:
            return
        perm = trs[0][2][0] if trs else tuple(range(nd))  # no transpose at all is the identity permutation
        okp = isinstance(perm, tuple) and sorted(perm) == list(range(nd))
        ob(tag + ".transposes_by_a_permutation", okp)
        if not okp:
            return
        pos = {ax: perm.index(ax) for ax in range(nd)}
        newgroups = tuple(tuple(pos[ax] for ax in g) for g in nonempty)
        ob(tag + ".groups_contiguous_and_in_listed_order_after_the_transpose", all(list(g) == list(range(g[0], g[0] + len(g))) for g in newgroups))
        grouped = {ax for g in nonempty for ax in g}
        free_after = [p for p in perm if p not in grouped]
        ob(tag + ".ungrouped_axes_keep_their_relative_order", free_after == sorted(free_after))
        # the groups sit next to each other, in listed order, where the smallest fused axis was
        start = sum(1 for f in range(min(grouped)) if f not in grouped)
        flat = [ax for g in newgroups for ax in g]
        ob(tag + ".groups_side_by_side_in_listed_order_at_the_smallest_fused_axis", flat == list(range(start, start + len(flat))))
        d_after = tuple(duals[p] for p in perm)
        # 2. flips: non-dual members of groups whose first axis is dual
        want_flip = sorted(ax for g in newgroups if d_after[g[0]] for ax in g if not d_after[ax])
        flips = [e for e in ops if e[1] == "phase_flip"]
        ob(tag + ".parity_flip_of_exactly_the_non_dual_members_of_dual_groups", odd_axes(flips) == want_flip)
        # 3. virtual reversal inside each dual group
        want_v = list(range(nd))
        for g in newgroups:
            if d_after[g[0]]:
                for a_, b_ in zip(g, reversed(g)):
                    want_v[a_] = b_
        vts = [e for e in ops if e[1] == "phase_transpose"]
        any_dual = any(d_after[g[0]] for g in newgroups)
        ob(tag + ".virtual_reversal_of_exactly_the_dual_groups", all(len(e[2]) == 1 for e in vts) and composed([e[2][0] for e in vts], nd) == tuple(want_v))
        # 4. sync, then the abelian fuse of the renumbered groups
        fc = [e for e in ops if e[1] == "_fuse_core"]
        ob(tag + ".abelian_fuse_called_once_with_the_renumbered_groups", len(fc) == 1 and fc[0][2] == newgroups and fc[0][3].get("inplace") is True)
        if len(fc) == 1:
            i_fc = ops.index(fc[0])
            syncs = [i for i, e in enumerate(ops) if e[1] == "phase_sync"]
            signs = [i for i, e in enumerate(ops) if e[1] in ("transpose", "phase_flip", "phase_transpose", "phase_global")]
            ob(tag + ".synchronised_after_all_sign_operations_and_before_blocks_are_moved", bool(syncs) and max(signs) < max(s for s in syncs if s < i_fc) if [s for s in syncs if s < i_fc] else False)
            ob(tag + ".no_sign_operation_after_the_blocks_are_moved", all(i < i_fc for i in signs))
        # 5. empty groups
        ex = [e for e in ops if e[1] == "expand_dims"]
        g0 = min(ax for g in newgroups for ax in g)
        want_ex = [g0 + i for i, g in enumerate(groups) if not g]
        ob(tag + ".empty_groups_expanded_after_fusing", [e[2][0] for e in ex] == want_ex and all(e[3].get("inplace") is True for e in ex) and (not ex or not fc or ops.index(ex[0]) > ops.index(fc[0])))

    return Task(
        f"C05.fermionic_fuse.orchestration.inplace_{inplace}",
        ["C05", "C06", "C09", "C14", "C03"],
        [FA + ".fuse", "abelian_core.calc_fuse_group_info"],
        body,
        assumes=["callee contracts: FermionicArray.transpose / phase_flip / phase_transpose / phase_sync (contracts/fermi_ops.py, phases.py), AbelianArray._fuse_core (contracts/fuse_entry.py), expand_dims (contracts/dims.py)", "that these signs are the contraction-compatible ones is decided by the bounded tier (C05 / C06 fermionic round trips and fused-vs-blockwise contraction)"],
        bounded_rank="rank 2-4, enumerated group families, every direction pattern",
        timeout_ms=20000,
    )


def _unfuse_task(inplace):
    def body(it):
        ctx = it.ctx
        cases = []
        for nd in (1, 2, 3):
            for axis in range(nd):
                for nsub in (1, 2, 3):
                    cases.append((nd, axis, nsub))
        nd, axis, nsub = cases[ctx.decide(len(cases), None, "shape")]
        bits = ctx.decide(2 ** (nsub + 1), None, "duals")
        fused_dual = bool(bits & 1)
        subduals = tuple(bool(bits >> (i + 1) & 1) for i in range(nsub))
        log, world = [], {}
        idx = [mk_ix(f"i{j}", bool(j % 2)) for j in range(nd)]
        idx[axis] = mk_ix("fused", fused_dual, subduals)
        x = Arr(it, "x", idx, log, world)
        seen = []

        def aunfuse(it_, a, k):
            arr = world.get(id(a[0]))
            seen.append((a, k, arr.synced if arr else None, len(log)))
            return a[0]

        it.summaries["abelian_core.AbelianArray.unfuse"] = aunfuse
        m, _ = x.obj.cls.lookup("unfuse")
        tag = f"fermionic_unfuse[ndim={nd},axis={axis},fused={'-' if fused_dual else '+'},sub={''.join('-' if d else '+' for d in subduals)},inplace={inplace}]"
        ob = ctx.oblige
        r = it.call(m, [x.obj, axis], {"inplace": inplace})
        w = world.get(id(r))
        ob(tag + ".returns_an_array", w is not None)
        ok = len(seen) == 1
        ob(tag + ".abelian_unfuse_called_once", ok)
        if not ok or w is None:
            return
        a, k, was_synced, at = seen[0]
        ob(tag + ".blocks_split_on_a_synchronised_array_on_the_same_axis_in_place", was_synced is True and a[1] == axis and k.get("inplace") is True and a[0] is r)
        if inplace:
            ob(tag + ".in_place_returns_the_receiver", w is x)
        else:
            ob(tag + ".out_of_place_operand_untouched", w is not x and untouched(log, "x"))
        before = [e for e in log[:at] if e[1] != "copy"]
        after = log[at:]
        ob(tag + ".only_synchronisation_before_the_blocks_are_split", all(e[1] == "phase_sync" for e in before))
        ob(tag + ".sign_operations_after_the_split_are_in_place_on_the_result", all(e[0] == w.name and e[4] == w.name for e in after))
        flips = odd_axes([e for e in after if e[1] == "phase_flip"])
        vts = [e for e in after if e[1] == "phase_transpose"]
        if fused_dual:
            want_flip = sorted(axis + i for i, d in enumerate(subduals) if not d)
            want_v = list(range(nd + nsub - 1))
            for i in range(nsub):
                want_v[axis + i] = axis + nsub - 1 - i
            ob(tag + ".dual_index.non_dual_constituents_flipped_back", flips == want_flip)
            ob(tag + ".dual_index.constituents_virtually_reversed_back", all(len(e[2]) == 1 for e in vts) and composed([e[2][0] for e in vts], nd + nsub - 1) == tuple(want_v))
        else:
            ob(tag + ".non_dual_index.no_sign_operation", flips == [] and all(len(e[2]) == 1 for e in vts) and composed([e[2][0] for e in vts], nd + nsub - 1) == tuple(range(nd + nsub - 1)))
        ob(tag + ".no_other_sign_operation", all(e[1] in ("phase_flip", "phase_transpose", "phase_sync") for e in after))

    return Task(
        f"C05.fermionic_unfuse.orchestration.inplace_{inplace}",
        ["C05", "C06", "C09", "C14"],
        [FA + ".unfuse"],
        body,
        assumes=["callee contracts: phase_sync / phase_flip / phase_transpose (contracts/phases.py), AbelianArray.unfuse (bounded tier C05)", "flip and reversal are involutions on the sign table (contracts/phases.py, koszul.py), so the same set undoes fuse"],
        bounded_rank="rank 1-3, fused index of 1-3 constituents at every axis, every direction pattern",
    )


def tasks():
    return [_trace_task(), _dense_task(), _matmul_task(), _einsum_task(), _fuse_task(False), _fuse_task(True), _unfuse_task(False), _unfuse_task(True)]
