"""Sidecar contracts for the reductions and elementwise functions of BlockBase (C08, C12, C14, C09 via inheritance):
_do_reduction (max, min, sum, all, any), norm, _do_unary_op (abs, sqrt, isfinite), clip.

  reduction f in {max, min, sum, all, any}:  result == f(stack(f(block) for every stored block))  -- the backend's
      function of that very name, applied once to every stored block (no filter) and once to the stacked partial
      results; the operand is not modified.  (That f(stack(f(b))) == f over all elements is the associativity of
      the five numpy reductions: A-numpy.)
  norm:  (SUM over the stored blocks of sum(abs(block) ** 2)) ** 0.5, every stored block exactly once
  abs / sqrt / isfinite / clip: a NEW array with the same sectors whose blocks are the backend function of that
      name applied to the old blocks (clip: with the bounds given, in the order given); operand untouched.
"""

import ast as _ast

import z3

from pyvc.core import SV, SymObj, TOpaque, Unsupported
from pyvc.interp import BuiltinVal
from pyvc.task import Task, check_call

from .abelian_ops import frame, install, same_keys_mapped
from .arrays import BLK, Snapshot, mk_farray, rekey_axioms

NUM = TOpaque("PartialResult")
BAG = TOpaque("StackOfPartialResults")
RED = {}
UNARY = {}


def red_fn(name):
    if name not in RED:
        RED[name] = (z3.Function(f"np_{name}_of_block", BLK.sort(), NUM.sort()), z3.Function(f"np_{name}_of_stack", BAG.sort(), NUM.sort()))
    return RED[name]


def un_fn(name):
    if name not in UNARY:
        UNARY[name] = z3.Function(f"np_{name}", BLK.sort(), BLK.sort())
    return UNARY[name]


def _reduction_task(name):
    def body(it):
        install(it)
        ctx = it.ctx
        x = mk_farray(it, fermionic=False)
        snap = Snapshot(x)
        bl = x.fields["_blocks"]
        fb, fs = red_fn(name)
        stack_of = z3.Function("stack_over_all_stored_blocks", z3.ArraySort(bl.kty.sort(), z3.BoolSort()), BAG.sort())
        asked, stacked = [], []

        def get_lib_fn(it_, a, k):
            asked.append(a[1])
            if a[1] == "stack":
                def stack(i2, a2, k2):
                    stacked.append(a2[0])
                    dg = a2[0]
                    return SV(stack_of(dg.ki.has), BAG)

                return BuiltinVal("np.stack", stack)

            def f(i2, a2, k2, nm=a[1]):
                v = a2[0]
                fb_, fs_ = red_fn(nm)
                if isinstance(v, SV) and v.ty == BLK:
                    return SV(fb_(v.t), NUM)
                if isinstance(v, SV) and v.ty == BAG:
                    return SV(fs_(v.t), NUM)
                raise Unsupported("reduction applied to an unexpected value")

            return BuiltinVal("np." + a[1], f)

        it.externals["ar.get_lib_fn"] = get_lib_fn
        it.dictgen_sum = lambda it_, dg, start: (_ for _ in ()).throw(Unsupported("python sum over the blocks"))
        m, _ = x.cls.lookup(name)
        tag = f"BlockBase.{name}"

        def post(r):
            out = [("result_is_the_reduction_of_the_stacked_partial_results", isinstance(r, SV) and r.ty == NUM and z3.eq(r.t, fs(stack_of(bl.has))))]
            out.append(("one_stack_of_one_partial_result_per_stored_block", len(stacked) == 1))
            if len(stacked) == 1:
                dg = stacked[0]
                b = dg.val
                ok = dg.ki.mode == "values" and z3.eq(dg.ki.has, bl.has) and z3.eq(dg.ki.val, bl.val)
                out.append(("partial_results_run_over_the_values_of_the_block_dict", ok))
                out.append(("every_stored_block_contributes_no_filter", z3.is_true(z3.simplify(dg.cond))))
                out.append(("partial_result_is_the_same_named_reduction_of_the_block", isinstance(dg.elem, SV) and dg.elem.ty == NUM and b is not None and z3.ForAll([b], dg.elem.t == fb(b))))
            out.append(("only_the_reduction_of_that_name_and_stack_are_requested", sorted(set(asked)) == sorted({name, "stack"})))
            out += [("operand_" + n, t) for n, t in snap.unchanged()]
            return out

        check_call(it, tag, m, [x], post=post)

    return Task(f"C08.reduction.{name}", ["C08", "C12", "C14"], ["block_core.BlockBase._do_reduction", f"block_core.BlockBase.{name}"], body, axioms=rekey_axioms, assumes=["A-numpy: f(stack(f(block) ...)) == f over all elements for f in max, min, sum, all, any (associativity)", "map over dict values == one element per stored item (order abstracted: the five reductions are commutative)"])


def _norm_task():
    def body(it):
        install(it)
        x = mk_farray(it, fermionic=False)
        snap = Snapshot(x)
        bl = x.fields["_blocks"]
        SQ = z3.Function("np_sum_of_abs_squared", BLK.sort(), NUM.sort())
        TOTAL = z3.Function("SUM_over_all_stored_blocks", z3.ArraySort(bl.kty.sort(), z3.BoolSort()), NUM.sort())
        ROOT = z3.Function("power_one_half", NUM.sort(), NUM.sort())
        ABSQ = TOpaque("AbsOrSquare")
        absf = z3.Function("np_abs_", BLK.sort(), ABSQ.sort())
        sqf = z3.Function("squared_", ABSQ.sort(), ABSQ.sort())
        sumf = z3.Function("np_sum_", ABSQ.sort(), NUM.sort())
        folded = []

        def get_lib_fn(it_, a, k):
            if a[1] == "sum":
                return BuiltinVal("np.sum", lambda i2, a2, k2: SV(sumf(a2[0].t), NUM))
            if a[1] == "abs":
                return BuiltinVal("np.abs", lambda i2, a2, k2: SV(absf(a2[0].t), ABSQ))
            raise Unsupported(f"get_lib_fn {a[1]!r}")

        it.externals["ar.get_lib_fn"] = get_lib_fn
        base_hook = it.binop_hook

        def binop_hook(it_, op, a, b):
            if op is _ast.Pow and isinstance(a, SV) and a.ty == ABSQ and b == 2:
                return SV(sqf(a.t), ABSQ)
            if op is _ast.Pow and isinstance(a, SV) and a.ty == NUM and b == 0.5:
                return SV(ROOT(a.t), NUM)
            if op is _ast.Pow and isinstance(a, SV) and a.ty == NUM and b == 2:
                return SV(z3.Function("number_squared", NUM.sort(), NUM.sort())(a.t), NUM)
            if op is _ast.Add and isinstance(a, SV) and isinstance(b, SV) and a.ty == NUM and b.ty == NUM:
                return SV(NADD(a.t, b.t), NUM)
            return base_hook(it_, op, a, b)

        it.binop_hook = binop_hook
        it.dictgen_sum = lambda it_, dg, start: (_ for _ in ()).throw(Unsupported("python sum over the blocks"))

        NADD = z3.Function("num_add", NUM.sort(), NUM.sort(), NUM.sort())

        def reduce_hook(it_, f, seq):
            # the folding function, applied to two generic partial results
            a_, b_ = SV(it_.ctx.fresh("acc", NUM), NUM), SV(it_.ctx.fresh("term", NUM), NUM)
            r_ = it_.call(f, [a_, b_])
            folded.append((isinstance(r_, SV) and r_.ty == NUM and z3.eq(r_.t, NADD(a_.t, b_.t)), seq))
            return SV(TOTAL(seq.ki.has), NUM)

        it.reduce_hook = reduce_hook
        m, _ = x.cls.lookup("norm")

        def post(r):
            out = [("norm_is_the_square_root_of_the_total", isinstance(r, SV) and r.ty == NUM and z3.eq(r.t, ROOT(TOTAL(bl.has)))), ("one_fold_over_the_stored_blocks", len(folded) == 1)]
            if len(folded) == 1:
                f, dg = folded[0]
                b = dg.val
                out.append(("fold_runs_over_the_values_of_the_block_dict", dg.ki.mode == "values" and z3.eq(dg.ki.has, bl.has) and z3.eq(dg.ki.val, bl.val)))
                out.append(("every_stored_block_contributes_no_filter", z3.is_true(z3.simplify(dg.cond))))
                out.append(("summand_is_the_sum_of_squared_magnitudes_of_the_block", isinstance(dg.elem, SV) and dg.elem.ty == NUM and z3.ForAll([b], dg.elem.t == sumf(sqf(absf(b))))))
                out.append(("fold_is_addition", bool(f)))
            out += [("operand_" + n, t) for n, t in snap.unchanged()]
            return out

        check_call(it, "BlockBase.norm", m, [x], post=post)

    return Task("C08.norm", ["C08", "C12", "C14"], ["block_core.BlockBase.norm"], body, axioms=rekey_axioms, assumes=["functools.reduce(add, one term per stored block) == finite sum over the set of stored blocks (A-float: order of summation)", "an array without blocks is outside the claim (reduce of an empty sequence raises)"])


def _unary_task(name):
    def body(it):
        install(it)
        x = mk_farray(it, fermionic=False)
        snap = Snapshot(x)
        B0 = (x.fields["_blocks"].has, x.fields["_blocks"].val)
        asked = []
        lo, hi = SV(it.ctx.fresh("a_min", NUM), NUM), SV(it.ctx.fresh("a_max", NUM), NUM)
        clipf = z3.Function("np_clip", BLK.sort(), NUM.sort(), NUM.sort(), BLK.sort())

        def get_lib_fn(it_, a, k):
            asked.append(a[1])
            if a[1] == "clip":
                return BuiltinVal("np.clip", lambda i2, a2, k2: SV(clipf(a2[0].t, a2[1].t, a2[2].t), BLK))
            return BuiltinVal("np." + a[1], lambda i2, a2, k2, nm=a[1]: SV(un_fn(nm)(a2[0].t), BLK))

        it.externals["ar.get_lib_fn"] = get_lib_fn
        m, _ = x.cls.lookup(name)
        want = (lambda b: clipf(b, lo.t, hi.t)) if name == "clip" else un_fn(name)

        def post(r):
            out = frame(r, x, snap, False)
            if isinstance(r, SymObj):
                out += same_keys_mapped(r, B0, want, "un")
            out.append(("only_the_backend_function_of_that_name_is_requested", set(asked) == {name}))
            return out

        check_call(it, f"BlockBase.{name}", m, [x] + ([lo, hi] if name == "clip" else []), post=post)

    return Task(f"C08.elementwise.{name}", ["C08", "C14"], ["block_core.BlockBase." + name, "block_core.BlockBase._do_unary_op", "block_core.BlockBase.apply_to_arrays"], body, axioms=rekey_axioms, assumes=["A-numpy: the backend function of that name is the elementwise function"])


def tasks():
    return [_reduction_task(n) for n in ("max", "min", "sum", "all", "any")] + [_norm_task()] + [_unary_task(n) for n in ("abs", "sqrt", "isfinite", "clip")]
