"""Sidecar contracts for the entry point of abelian contraction (C02, C06):
abelian_core.tensordot_abelian -- axes parsing (int / pairs, negative axes), complement
axes, strategy selection (auto / fused / blockwise / default mode) and scalar unwrapping.
"""

import z3

from pyvc.builtins_model import pymod_axioms, zlen
from pyvc.core import SV, PyRaise, SymObj, SymSeq, TBool, TInt, TOpaque
from pyvc.interp import BuiltinVal, I
from pyvc.task import Task, check_call

from .util import fresh_seq

IXE = TOpaque("IndexObj")
SCAL = TOpaque("Scalar")
Q = "abelian_core.tensordot_abelian"


def mk_operand(it, name):
    cls = it.get_class("abelian_core", "AbelianArray")
    n = it.ctx.fresh(name + "_ndim", TInt)
    it.ctx.assume(n >= 0)
    x = SymObj(cls, tag=name)
    x.fields["_indices"] = SymSeq(n, z3.Const(name + "_indices", z3.ArraySort(z3.IntSort(), IXE.sort())), IXE, "tuple")
    return x, n


def is_increasing_complement(seq, n, removed, nm):
    """seq is exactly the increasing listing of {i in [0,n)} minus the entries of `removed`"""
    j, j2, i, t = z3.Ints(f"j!{nm} j2!{nm} i!{nm} t!{nm}")
    L = zlen(seq.length)
    inrem = lambda v: z3.Exists([t], z3.And(t >= 0, t < zlen(removed.length), z3.Select(removed.arr, t) == v))
    pos = (seq.meta or {}).get("filter_pos")
    if pos is not None:
        # existential witnessed by the ghost position map of the filter comprehension
        witness = lambda v: z3.And(z3.Select(pos, v) >= 0, z3.Select(pos, v) < L, z3.Select(seq.arr, z3.Select(pos, v)) == v)
    else:
        witness = lambda v: z3.Exists([j], z3.And(j >= 0, j < L, z3.Select(seq.arr, j) == v))
    return [
        (f"{nm}_in_range_and_not_contracted", z3.ForAll([j], z3.Implies(z3.And(j >= 0, j < L), z3.And(z3.Select(seq.arr, j) >= 0, z3.Select(seq.arr, j) < n, z3.Not(inrem(z3.Select(seq.arr, j))))))),
        (f"{nm}_strictly_increasing", z3.ForAll([j, j2], z3.Implies(z3.And(j >= 0, j < j2, j2 < L), z3.Select(seq.arr, j) < z3.Select(seq.arr, j2)))),
        (f"{nm}_complete", z3.ForAll([i], z3.Implies(z3.And(i >= 0, i < n, z3.Not(inrem(i))), witness(i)))),
    ]


def _task(axes_kind, mode):
    def body(it):
        ctx = it.ctx
        a, na = mk_operand(it, "a")
        b, nb = mk_operand(it, "b")
        calls = []
        nc = ctx.fresh("c_ndim", TInt)
        has_scalar = ctx.fresh("c_has_scalar_block", TBool)
        scalar = SV(ctx.fresh("c_scalar", SCAL), SCAL)

        def getitem(it_, obj, key):
            if key != ():
                from pyvc.core import Unsupported

                raise Unsupported("unexpected key")
            if it_.ctx.branch(has_scalar, "scalarblock"):
                return scalar
            raise PyRaise("KeyError", "()")

        c = SymObj(None, {"ndim": SV(nc, TInt), "blocks": SymObj(None, {"$getitem": getitem}, tag="cblocks")}, tag="c")

        def mk_summary(name):
            def f(it_, args, kw):
                calls.append((name, args, kw))
                return c

            return f

        it.summaries["abelian_core._tensordot_via_fused"] = mk_summary("fused")
        it.summaries["abelian_core._tensordot_blockwise"] = mk_summary("blockwise")
        default_mode = "blockwise"
        it.globals[("abelian_core", "_DEFAULT_TENSORDOT_MODE")] = default_mode
        j = z3.Int("j!pre")
        if axes_kind == "int":
            k = ctx.fresh("axes", TInt)
            ctx.assume(z3.And(k >= 0, k <= na, k <= nb))
            axes = SV(k, TInt)
            ncon = k
        else:
            xa = fresh_seq(it, "axes_a", TInt)
            xb = fresh_seq(it, "axes_b", TInt)
            ctx.assume(z3.ForAll([j], z3.Implies(z3.And(j >= 0, j < xa.length), z3.And(z3.Select(xa.arr, j) >= -na, z3.Select(xa.arr, j) < na))))
            ctx.assume(z3.ForAll([j], z3.Implies(z3.And(j >= 0, j < xb.length), z3.And(z3.Select(xb.arr, j) >= -nb, z3.Select(xb.arr, j) < nb))))
            ctx.assume(z3.Implies(xa.length > 0, na > 0))
            ctx.assume(z3.Implies(xb.length > 0, nb > 0))
            axes = (xa, xb)
            ncon = xa.length
        preserve = ctx.fresh("preserve_array", TBool)
        fn = it.module_lookup("abelian_core", "tensordot_abelian")

        def post(r):
            out = [("exactly_one_strategy_called", len(calls) == 1)]
            if len(calls) != 1:
                return out
            name, args, kw = calls[0]
            eff_mode = default_mode if mode is None else mode
            if eff_mode == "auto":
                out.append(("auto_is_blockwise_only_for_outer_products", z3.BoolVal(name == "blockwise") == (ncon == 0)))
            else:
                out.append((f"strategy_is_{eff_mode}", name == eff_mode))
            ok = len(args) == 6 and args[0] is a and args[1] is b and all(isinstance(s, SymSeq) for s in args[2:])
            out.append(("operands_and_four_axis_tuples_passed", ok))
            if ok:
                la, ca, cb, rb = args[2:]
                jj = z3.Int("j!post")
                if axes_kind == "int":
                    out += [
                        ("axes_a_are_last_k", z3.And(zlen(ca.length) == ncon, z3.ForAll([jj], z3.Implies(z3.And(jj >= 0, jj < ncon), z3.Select(ca.arr, jj) == na - ncon + jj)))),
                        ("axes_b_are_first_k", z3.And(zlen(cb.length) == ncon, z3.ForAll([jj], z3.Implies(z3.And(jj >= 0, jj < ncon), z3.Select(cb.arr, jj) == jj)))),
                    ]
                else:
                    norm = lambda v, n: z3.If(v < 0, v + n, v)
                    out += [
                        ("axes_a_normalised_in_order", z3.And(zlen(ca.length) == xa.length, z3.ForAll([jj], z3.Implies(z3.And(jj >= 0, jj < xa.length), z3.Select(ca.arr, jj) == norm(z3.Select(xa.arr, jj), na))))),
                        ("axes_b_normalised_in_order", z3.And(zlen(cb.length) == xb.length, z3.ForAll([jj], z3.Implies(z3.And(jj >= 0, jj < xb.length), z3.Select(cb.arr, jj) == norm(z3.Select(xb.arr, jj), nb))))),
                        ("same_number_of_axes", xa.length == xb.length),
                    ]
                out += is_increasing_complement(la, na, ca, "left_axes")
                out += is_increasing_complement(rb, nb, cb, "right_axes")
            # result unwrapping
            if r is c:
                out.append(("array_returned_unless_scalar_requested", z3.Or(nc != 0, preserve)))
            elif isinstance(r, SV) and r.ty == SCAL:
                out.append(("scalar_block_returned_for_rank0", z3.And(nc == 0, z3.Not(preserve), has_scalar, r.t == scalar.t)))
            elif isinstance(r, float) and r == 0.0:
                out.append(("zero_returned_when_nothing_aligned", z3.And(nc == 0, z3.Not(preserve), z3.Not(has_scalar))))
            else:
                out.append(("result_kind", False))
            return out

        raises = {}
        if axes_kind == "pairs":
            raises["ValueError"] = xa.length != xb.length
        if mode not in ("auto", "fused", "blockwise", None):
            raises["ValueError"] = True
        res, exc = check_call(it, f"tensordot_abelian[{axes_kind},mode={mode}]", fn, [a, b], {"axes": axes, "mode": mode, "preserve_array": SV(preserve, TBool)}, post=post, raises=raises)
        if mode not in ("auto", "fused", "blockwise", None):
            it.ctx.oblige(f"tensordot_abelian[{axes_kind},mode={mode}].unknown_mode_raises", exc == "ValueError" or (axes_kind == "pairs" and exc == "ValueError"))

    return Task(
        f"C02.tensordot_abelian.entry.{axes_kind}.{mode}",
        ["C02", "C06"],
        [Q, "abelian_core.without"],
        body,
        axioms=pymod_axioms,
        assumes=[
            "requires: contracted axes are valid axis numbers (-ndim <= ax < ndim), int axes 0 <= k <= min(ndim_a, ndim_b)",
            "A-builtins: `x % n` for n > 0 is the mathematical modulus; a filtered comprehension is the order-preserving sub-sequence of the items satisfying the condition",
            "callee contracts _tensordot_via_fused / _tensordot_blockwise (element level: bounded tier, C02/C06)",
        ],
    )


def tasks():
    out = []
    for ak in ("int", "pairs"):
        for mode in ("auto", "fused", "blockwise", None, "bogus"):
            out.append(_task(ak, mode))
    return out
