"""Sidecar contracts for the entry point of abelian contraction (C02, C06):
abelian_core.tensordot_abelian -- axes parsing (int / pairs, negative axes), complement
axes, strategy selection (auto / fused / blockwise / default mode) and scalar unwrapping.
"""

import z3

from pyvc.builtins_model import pymod_axioms, zlen
from pyvc.core import SV, PyRaise, SymObj, SymSeq, TBool, TInt, TOpaque
from pyvc.interp import BuiltinVal, I
from pyvc.task import Task, check_call

from .util import fresh_seq

IXE = TOpaque("IndexObj")
SCAL = TOpaque("Scalar")
Q = "abelian_core.tensordot_abelian"


def mk_operand(it, name):
    cls = it.get_class("abelian_core", "AbelianArray")
    n = it.ctx.fresh(name + "_ndim", TInt)
    it.ctx.assume(n >= 0)
    x = SymObj(cls, tag=name)
    x.fields["_indices"] = SymSeq(n, z3.Const(name + "_indices", z3.ArraySort(z3.IntSort(), IXE.sort())), IXE, "tuple")
    return x, n


def is_increasing_complement(seq, n, removed, nm):
    """seq is exactly the increasing listing of {i in [0,n)} minus the entries of `removed`"""
    j, j2, i, t = z3.Ints(f"j!{nm} j2!{nm} i!{nm} t!{nm}")
    L = zlen(seq.length)
    inrem = lambda v: z3.Exists([t], z3.And(t >= 0, t < zlen(removed.length), z3.Select(removed.arr, t) == v))
    pos = (seq.meta or {}).get("filter_pos")
    if pos is not None:
        # existential witnessed by the ghost position map of the filter comprehension
        witness = lambda v: z3.And(z3.Select(pos, v) >= 0, z3.Select(pos, v) < L, z3.Select(seq.arr, z3.Select(pos, v)) == v)
    else:
        witness = lambda v: z3.Exists([j], z3.And(j >= 0, j < L, z3.Select(seq.arr, j) == v))
    return [
        (f"{nm}_in_range_and_not_contracted", z3.ForAll([j], z3.Implies(z3.And(j >= 0, j < L), z3.And(z3.Select(seq.arr, j) >= 0, z3.Select(seq.arr, j) < n, z3.Not(inrem(z3.Select(seq.arr, j))))))),
        (f"{nm}_strictly_increasing", z3.ForAll([j, j2], z3.Implies(z3.And(j >= 0, j < j2, j2 < L), z3.Select(seq.arr, j) < z3.Select(seq.arr, j2)))),
        (f"{nm}_complete", z3.ForAll([i], z3.Implies(z3.And(i >= 0, i < n, z3.Not(inrem(i))), witness(i)))),
    ]


def _task(axes_kind, mode):
    def body(it):
        ctx = it.ctx
        a, na = mk_operand(it, "a")
        b, nb = mk_operand(it, "b")
        calls = []
        nc = ctx.fresh("c_ndim", TInt)
        has_scalar = ctx.fresh("c_has_scalar_block", TBool)
        scalar = SV(ctx.fresh("c_scalar", SCAL), SCAL)

        def getitem(it_, obj, key):
            if key != ():
                from pyvc.core import Unsupported

                raise Unsupported("unexpected key")
            if it_.ctx.branch(has_scalar, "scalarblock"):
                return scalar
            raise PyRaise("KeyError", "()")

        c = SymObj(None, {"ndim": SV(nc, TInt), "blocks": SymObj(None, {"$getitem": getitem}, tag="cblocks")}, tag="c")

        def mk_summary(name):
            def f(it_, args, kw):
                calls.append((name, args, kw))
                return c

            return f

        it.summaries["abelian_core._tensordot_via_fused"] = mk_summary("fused")
        it.summaries["abelian_core._tensordot_blockwise"] = mk_summary("blockwise")
        default_mode = "blockwise"
        it.globals[("abelian_core", "_DEFAULT_TENSORDOT_MODE")] = default_mode
        j = z3.Int("j!pre")
        if axes_kind == "int":
            k = ctx.fresh("axes", TInt)
            ctx.assume(z3.And(k >= 0, k <= na, k <= nb))
            axes = SV(k, TInt)
            ncon = k
        else:
            xa = fresh_seq(it, "axes_a", TInt)
            xb = fresh_seq(it, "axes_b", TInt)
            ctx.assume(z3.ForAll([j], z3.Implies(z3.And(j >= 0, j < xa.length), z3.And(z3.Select(xa.arr, j) >= -na, z3.Select(xa.arr, j) < na))))
            ctx.assume(z3.ForAll([j], z3.Implies(z3.And(j >= 0, j < xb.length), z3.And(z3.Select(xb.arr, j) >= -nb, z3.Select(xb.arr, j) < nb))))
            ctx.assume(z3.Implies(xa.length > 0, na > 0))
            ctx.assume(z3.Implies(xb.length > 0, nb > 0))
            axes = (xa, xb)
            ncon = xa.length
        preserve = ctx.fresh("preserve_array", TBool)
        fn = it.module_lookup("abelian_core", "tensordot_abelian")

        def post(r):
            out = [("exactly_one_strategy_called", len(calls) == 1)]
            if len(calls) != 1:
                return out
            name, args, kw = calls[0]
            eff_mode = default_mode if mode is None else mode
            if eff_mode == "auto":
                out.append(("auto_is_blockwise_only_for_outer_products", z3.BoolVal(name == "blockwise") == (ncon == 0)))
            else:
                out.append((f"strategy_is_{eff_mode}", name == eff_mode))
            ok = len(args) == 6 and args[0] is a and args[1] is b and all(isinstance(s, SymSeq) for s in args[2:])
            out.append(("operands_and_four_axis_tuples_passed", ok))
            if ok:
                la, ca, cb, rb = args[2:]
                jj = z3.Int("j!post")
                if axes_kind == "int":
                    out += [
                        ("axes_a_are_last_k", z3.And(zlen(ca.length) == ncon, z3.ForAll([jj], z3.Implies(z3.And(jj >= 0, jj < ncon), z3.Select(ca.arr, jj) == na - ncon + jj)))),
                        ("axes_b_are_first_k", z3.And(zlen(cb.length) == ncon, z3.ForAll([jj], z3.Implies(z3.And(jj >= 0, jj < ncon), z3.Select(cb.arr, jj) == jj)))),
                    ]
                else:
                    norm = lambda v, n: z3.If(v < 0, v + n, v)
                    out += [
                        ("axes_a_normalised_in_order", z3.And(zlen(ca.length) == xa.length, z3.ForAll([jj], z3.Implies(z3.And(jj >= 0, jj < xa.length), z3.Select(ca.arr, jj) == norm(z3.Select(xa.arr, jj), na))))),
                        ("axes_b_normalised_in_order", z3.And(zlen(cb.length) == xb.length, z3.ForAll([jj], z3.Implies(z3.And(jj >= 0, jj < xb.length), z3.Select(cb.arr, jj) == norm(z3.Select(xb.arr, jj), nb))))),
                        ("same_number_of_axes", xa.length == xb.length),
                    ]
                out += is_increasing_complement(la, na, ca, "left_axes")
                out += is_increasing_complement(rb, nb, cb, "right_axes")
            # result unwrapping
            if r is c:
                out.append(("array_returned_unless_scalar_requested", z3.Or(nc != 0, preserve)))
            elif isinstance(r, SV) and r.ty == SCAL:
                out.append(("scalar_block_returned_for_rank0", z3.And(nc == 0, z3.Not(preserve), has_scalar, r.t == scalar.t)))
            elif isinstance(r, float) and r == 0.0:
                out.append(("zero_returned_when_nothing_aligned", z3.And(nc == 0, z3.Not(preserve), z3.Not(has_scalar))))
            else:
                out.append(("result_kind", False))
            return out

        raises = {}
        if axes_kind == "pairs":
            raises["ValueError"] = xa.length != xb.length
        if mode not in ("auto", "fused", "blockwise", None):
            raises["ValueError"] = True
        res, exc = check_call(it, f"tensordot_abelian[{axes_kind},mode={mode}]", fn, [a, b], {"axes": axes, "mode": mode, "preserve_array": SV(preserve, TBool)}, post=post, raises=raises)
        if mode not in ("auto", "fused", "blockwise", None):
            it.ctx.oblige(f"tensordot_abelian[{axes_kind},mode={mode}].unknown_mode_raises", exc == "ValueError" or (axes_kind == "pairs" and exc == "ValueError"))

    return Task(
        f"C02.tensordot_abelian.entry.{axes_kind}.{mode}",
        ["C02", "C06"],
        [Q, "abelian_core.without"],
        body,
        axioms=pymod_axioms,
        assumes=[
            "requires: contracted axes are valid axis numbers (-ndim <= ax < ndim), int axes 0 <= k <= min(ndim_a, ndim_b)",
            "A-builtins: `x % n` for n > 0 is the mathematical modulus; a filtered comprehension is the order-preserving sub-sequence of the items satisfying the condition",
            "callee contracts _tensordot_via_fused / _tensordot_blockwise (element level: bounded tier, C02/C06)",
        ],
    )


# ----------------------------------------------------------------------------
# orchestration of the fused strategy


def _via_fused_task():
    """_tensordot_via_fused: align, (early exit with the right indices / charge when nothing aligns),
    fuse both operands into matrices/vectors, blockwise-contract the fused pair with the axes that
    the fuse layout implies, unfuse exactly the legs fused here (never a leg that was fused before)."""
    QF = "abelian_core._tensordot_via_fused"

    def body(it):
        import itertools

        AA = it.get_class("abelian_core", "AbelianArray")
        for nl, ncn, nr in itertools.product((0, 1, 2), repeat=3):
            for a_empty, b_empty in ((False, False), (True, False), (False, True)):
                tag = f"_tensordot_via_fused[nleft={nl},ncon={ncn},nright={nr},{'a_empty' if a_empty else 'b_empty' if b_empty else 'aligned'}]"
                ax = lambda nm, n: tuple(SV(z3.Int(f"{nm}{i}"), TInt) for i in range(n))
                left, ca, cb, right = ax("l", nl), ax("ca", ncn), ax("cb", ncn), ax("r", nr)
                a = SymObj(AA, {"_tag": "a"}, tag="a")
                b = SymObj(AA, {"_tag": "b"}, tag="b")
                log = []
                ia, ib = SymObj(None, {}, tag="a_indices"), SymObj(None, {}, tag="b_indices")
                cha, chb = SymObj(None, {}, tag="a_charge"), SymObj(None, {}, tag="b_charge")
                comb = SymObj(None, {}, tag="combined_charge")
                symm = SymObj(None, {}, tag="symmetry")
                symm.fields["combine"] = BuiltinVal("combine", lambda i2, a2, k2: comb if (len(a2) == 2 and a2[0] is cha and a2[1] is chb) else SymObj(None, {}, tag="wrong_combine"))
                a2 = SymObj(AA, {"_blocks": {} if a_empty else {"k": 1}, "_indices": ia, "_charge": cha, "_symmetry": symm}, tag="a_aligned")
                b2 = SymObj(AA, {"_blocks": {} if b_empty else {"k": 1}, "_indices": ib, "_charge": chb, "_symmetry": symm}, tag="b_aligned")

                def dms(it_, args, kw):
                    log.append(("align", args, kw))
                    return (a2, b2)

                def without(it_, args, kw):
                    return ("without", args[0], args[1])

                def fuse(it_, args, kw):
                    log.append(("fuse", args, kw))
                    return SymObj(AA, {"_fused_from": args[0]}, tag="fused")

                cf = SymObj(AA, {"ndim": (1 if nl else 0) + (1 if nr else 0)}, tag="cf")

                def blockwise(it_, args, kw):
                    log.append(("blockwise", args, kw))
                    return cf

                def unfuse(it_, args, kw):
                    log.append(("unfuse", args, kw))
                    return args[0]

                def copy_with(it_, args, kw):
                    log.append(("copy_with", args, kw))
                    return SymObj(AA, {"_early": True}, tag="early")

                it.summaries["abelian_core.drop_misaligned_sectors"] = dms
                it.summaries["abelian_core.without"] = without
                it.summaries["abelian_core.AbelianArray.fuse"] = fuse
                it.summaries["abelian_core._tensordot_blockwise"] = blockwise
                it.summaries["abelian_core.AbelianArray.unfuse"] = unfuse
                it.summaries["abelian_core.AbelianArray.copy_with"] = copy_with
                fn = it.module_lookup("abelian_core", "_tensordot_via_fused")
                r = it.call(fn, [a, b, left, ca, cb, right])
                ob = it.ctx.oblige
                al = [e for e in log if e[0] == "align"]
                ob(tag + ".aligns_operands_first_out_of_place", len(al) == 1 and al[0][1][0] is a and al[0][1][1] is b and al[0][1][2] is ca and al[0][1][3] is cb and not al[0][2].get("inplace", False) and log[0][0] == "align")
                if a_empty or b_empty:
                    cw = [e for e in log if e[0] == "copy_with"]
                    ok = len(cw) == 1 and len(log) == 2
                    ob(tag + ".early_exit_builds_empty_result_only", ok and r.fields.get("_early") is True)
                    if ok:
                        kw = cw[0][2]
                        ob(tag + ".early_exit_no_blocks", kw.get("blocks") == {})
                        ob(tag + ".early_exit_charge_is_combination", kw.get("charge") is comb)
                        ob(tag + ".early_exit_indices_are_free_legs", kw.get("indices") == (("without", ia, ca) + ("without", ib, cb)) or kw.get("indices") == ("without", ia, ca, "without", ib, cb))
                    continue
                fz = [e for e in log if e[0] == "fuse"]
                ok = len(fz) == 2
                ob(tag + ".fuses_both_operands", ok)
                if not ok:
                    continue
                ob(tag + ".left_operand_fused_as_free_then_contracted", fz[0][1][0] is a2 and fz[0][1][1] is left and fz[0][1][2] is ca and fz[0][2].get("expand_empty") is False)
                ob(tag + ".right_operand_fused_as_contracted_then_free", fz[1][1][0] is b2 and fz[1][1][1] is cb and fz[1][1][2] is right and fz[1][2].get("expand_empty") is False)
                bw = [e for e in log if e[0] == "blockwise"]
                ok = len(bw) == 1
                ob(tag + ".one_blockwise_contraction_of_the_fused_pair", ok)
                if ok:
                    args = bw[0][1]
                    want = (
                        (0,) if nl else (),
                        ((1,) if nl else (0,)) if ncn else (),
                        (0,) if ncn else (),
                        ((1,) if ncn else (0,)) if nr else (),
                    )
                    ob(tag + ".fused_axes_follow_the_fuse_layout", len(args) == 6 and args[0].fields.get("_fused_from") is a2 and args[1].fields.get("_fused_from") is b2 and tuple(args[2:]) == want)
                uf = [e for e in log if e[0] == "unfuse"]
                want_uf = ([cf.fields["ndim"] - 1] if nr > 1 else []) + ([0] if nl > 1 else [])
                got_uf = [e[1][1] for e in uf]
                ob(tag + ".unfuses_exactly_the_legs_fused_here_right_first", got_uf == want_uf and all(e[1][0] is cf and e[2].get("inplace") is True for e in uf))
                ob(tag + ".returns_contracted_array", r is cf)

    return Task(
        "C06.tensordot_via_fused.orchestration",
        ["C06", "C02"],
        [QF],
        body,
        assumes=["callee contracts: drop_misaligned_sectors, AbelianArray.fuse / unfuse (layout: groups inserted at the lowest fused axis in the order given), _tensordot_blockwise: bounded tier C02/C05/C06", "enumerated over 0, 1, 2 free / contracted axes per side (the code only distinguishes 0, 1, >1)"],
        bounded_rank="numbers of free / contracted axes in {0, 1, 2} (the function branches only on 0 vs >0 and >1)",
    )


def _matmul_task(nda, ndb):
    """x @ y for operands of rank 1 / 2: which axes are contracted, scalar unwrapping"""

    def body(it):
        ctx = it.ctx
        cls = it.get_class("abelian_core", "AbelianArray")
        a, b = SymObj(cls, tag="a"), SymObj(cls, tag="b")
        ia = tuple(SV(ctx.fresh(f"a_ix{i}", IXE), IXE) for i in range(nda))
        ib = tuple(SV(ctx.fresh(f"b_ix{i}", IXE), IXE) for i in range(ndb))
        a.fields["_indices"], b.fields["_indices"] = ia, ib
        calls = []
        nres = nda + ndb - 2
        has_scalar = ctx.fresh("c_has_scalar_block", TBool)
        scalar = SV(ctx.fresh("c_scalar", SCAL), SCAL)

        def getitem(it_, obj, key):
            if key != ():
                from pyvc.core import Unsupported

                raise Unsupported("unexpected key")
            if it_.ctx.branch(has_scalar, "scalarblock"):
                return scalar
            raise PyRaise("KeyError", "()")

        c = SymObj(None, {"ndim": nres, "blocks": SymObj(None, {"$getitem": getitem}, tag="cblocks")}, tag="c")

        def blockwise(it_, args, kw):
            calls.append((args, kw))
            return c

        it.summaries["abelian_core._tensordot_blockwise"] = blockwise
        m, _ = cls.lookup("__matmul__")
        for preserve in (False, True):
            calls.clear()

            def post(r, preserve=preserve):
                out = [("exactly_one_blockwise_contraction", len(calls) == 1)]
                if len(calls) != 1:
                    return out
                args, kw = calls[0]
                full = dict(zip(("a", "b", "left_axes", "axes_a", "axes_b", "right_axes"), args))
                full.update(kw)
                out += [
                    ("operands_in_order", full.get("a") is a and full.get("b") is b),
                    ("contracts_last_axis_of_left_with_first_axis_of_right", tuple(full.get("axes_a", ())) == (nda - 1,) and tuple(full.get("axes_b", ())) == (0,)),
                    ("free_axes_of_left_then_right_in_order", tuple(full.get("left_axes", ())) == tuple(range(nda - 1)) and tuple(full.get("right_axes", ())) == tuple(range(1, ndb))),
                ]
                if nres == 0 and not preserve:
                    out.append(("scalar_result_is_the_stored_number_or_zero", z3.If(has_scalar, z3.BoolVal(isinstance(r, SV) and r.ty == SCAL and z3.eq(r.t, scalar.t)), z3.BoolVal(r == 0.0 and not isinstance(r, SymObj)))))
                else:
                    out.append(("array_result_returned_as_is", r is c))
                return out

            check_call(it, f"AbelianArray.__matmul__[{nda}d@{ndb}d,preserve_array={preserve}]", m, [a, b], {"preserve_array": preserve}, post=post)

    return Task(f"C02.matmul.{nda}d_{ndb}d", ["C02"], ["abelian_core.AbelianArray.__matmul__"], body, assumes=["contract of _tensordot_blockwise (bounded tier C02)"])


def _matmul_rank_task():
    def body(it):
        cls = it.get_class("abelian_core", "AbelianArray")
        m, _ = cls.lookup("__matmul__")
        for nda, ndb in ((3, 1), (1, 3), (3, 3), (2, 4)):
            a, b = SymObj(cls, tag="a"), SymObj(cls, tag="b")
            a.fields["_indices"] = tuple(SV(it.ctx.fresh(f"a_ix{i}", IXE), IXE) for i in range(nda))
            b.fields["_indices"] = tuple(SV(it.ctx.fresh(f"b_ix{i}", IXE), IXE) for i in range(ndb))
            it.summaries["abelian_core._tensordot_blockwise"] = lambda it_, args, kw: (_ for _ in ()).throw(PyRaise("AssertionError", "contraction reached"))
            res, exc = check_call(it, f"AbelianArray.__matmul__[{nda}d@{ndb}d]", m, [a, b], raises={"ValueError": True})
            it.ctx.oblige(f"AbelianArray.__matmul__[{nda}d@{ndb}d].rank_above_two_raises_ValueError", exc == "ValueError")

    return Task("C02.matmul.rank_check", ["C02"], ["abelian_core.AbelianArray.__matmul__"], body)


def tasks():
    out = [_via_fused_task()] + [_matmul_task(x, y) for x in (1, 2) for y in (1, 2)] + [_matmul_rank_task()]
    for ak in ("int", "pairs"):
        for mode in ("auto", "fused", "blockwise", None, "bogus"):
            out.append(_task(ak, mode))
    return out
