"""Sidecar contracts for the fermionic wrappers of symmray.linalg (C11, C09):
qr_fermionic, svd_fermionic, eigh_fermionic, solve_fermionic.

The abelian implementations are replaced by their (structural) contracts; what is proved is
the orchestration that C11 relies on: the sign flip is applied to exactly the inner leg of the
RIGHT factor, exactly when that leg is dual -- i.e. when the contracted pair (left factor's bond
leg, right factor's bond leg) meets as ket-then-bra, which is the case in which the contraction
rule of C03 produces the extra sign (-1)^parity; operands are synchronised before their raw
blocks are read; nothing else is touched.
"""

import z3

from pyvc.core import SV, SymObj, TBool, TInt
from pyvc.interp import BuiltinVal
from pyvc.task import Task


def _factor(it, name, duals, log):
    x = SymObj(None, tag=name)
    x.fields["indices"] = tuple(SymObj(None, {"dual": SV(d, TBool)}, tag=f"{name}_ix{i}") for i, d in enumerate(duals))

    def phase_flip(it_, a, k):
        log.append((name, "phase_flip", tuple(a), dict(k)))
        return x

    x.fields["phase_flip"] = BuiltinVal(name + ".phase_flip", phase_flip)
    return x


def _qr_svd_task(which):
    Q = f"linalg.{which}_fermionic"

    def body(it):
        ctx = it.ctx
        dcol = ctx.fresh("column_index_dual", TBool)
        drow = ctx.fresh("row_index_dual", TBool)
        log = []
        # contract of the abelian implementation: bond direction on the left factor is that of the
        # column index, opposite on the right factor (proved: contracts/linalg_bonds.py)
        left = _factor(it, "left", [drow, dcol], log)
        right = _factor(it, "right", [z3.Not(dcol), dcol], log)
        svals = SymObj(None, tag="s")
        x = SymObj(None, tag="x")
        calls = []

        def base(it_, a, k):
            calls.append((a, k))
            return (left, right) if which == "qr" else (left, svals, right)

        it.summaries[f"linalg.{which}"] = base
        fn = it.module_lookup("linalg", f"{which}_fermionic")
        stab = SV(ctx.fresh("stabilized", TBool), TBool)
        r = it.call(fn, [x], {"stabilized": stab} if which == "qr" else {})
        nm = f"{which}_fermionic"
        ob = ctx.oblige
        ob(nm + ".delegates_once_to_abelian_implementation_on_the_operand", len(calls) == 1 and calls[0][0][0] is x)
        if which == "qr":
            ob(nm + ".forwards_stabilized", len(calls) == 1 and calls[0][1].get("stabilized") is stab)
        want = (left, right) if which == "qr" else (left, svals, right)
        ob(nm + ".returns_the_factors_in_order", isinstance(r, tuple) and len(r) == len(want) and all(a is b for a, b in zip(r, want)))
        ket_then_bra = z3.Not(dcol)  # left factor's bond leg is a ket (non-dual)  <=>  right factor's bond leg is dual
        flips = [e for e in log if e[1] == "phase_flip"]
        ob(nm + ".left_factor_never_sign_flipped", all(e[0] != "left" for e in flips))
        ob(nm + ".sign_flip_iff_bond_meets_as_ket_then_bra", z3.BoolVal(len(flips) == 1) == ket_then_bra if len(flips) <= 1 else False)
        if flips:
            e = flips[0]
            ob(nm + ".flip_is_on_inner_leg_of_right_factor_in_place", e[0] == "right" and e[2] == (0,) and e[3].get("inplace") is True)

    return Task(f"C11.{which}_fermionic.orchestration", ["C11", "C09"], [Q], body, assumes=["contract of the abelian implementation (contracts/linalg_bonds.py): bond directions; contraction sign rule of C03 (bounded tier) for which the flip compensates"])


def _solve_task():
    Q = "linalg.solve_fermionic"

    def body(it):
        ctx = it.ctx
        dsol = ctx.fresh("solution_index_dual", TBool)
        log = []
        sol = _factor(it, "x", [dsol], log)
        synced = {}

        def mk(name):
            o = SymObj(None, tag=name)

            def phase_sync(it_, a, k):
                if k.get("inplace"):
                    log.append((name, "phase_sync_inplace", (), {}))
                    return o
                s = SymObj(None, {"$synced_copy_of": o}, tag=name + "_synced")
                synced[name] = s
                return s

            o.fields["phase_sync"] = BuiltinVal(name + ".phase_sync", phase_sync)
            return o

        a, b = mk("a"), mk("b")
        calls = []

        def base(it_, args, k):
            calls.append(args)
            return sol

        it.summaries["linalg.solve"] = base
        fn = it.module_lookup("linalg", "solve_fermionic")
        r = it.call(fn, [a, b])
        ob = ctx.oblige
        ok = len(calls) == 1 and len(calls[0]) == 2
        ob("solve_fermionic.delegates_once", ok)
        if ok:
            ob("solve_fermionic.matrix_synchronised_out_of_place_before_blocks_are_read", calls[0][0] is synced.get("a"))
            ob("solve_fermionic.rhs_synchronised_out_of_place_before_blocks_are_read", calls[0][1] is synced.get("b"))
        ob("solve_fermionic.operands_never_synchronised_in_place", not any(e[1] == "phase_sync_inplace" for e in log))
        flips = [e for e in log if e[1] == "phase_flip"]
        ob("solve_fermionic.sign_flip_iff_solution_leg_dual", z3.BoolVal(len(flips) == 1) == dsol if len(flips) <= 1 else False)
        if flips:
            ob("solve_fermionic.flip_on_solution_leg_in_place", flips[0][0] == "x" and flips[0][2] == (0,) and flips[0][3].get("inplace") is True)
        ob("solve_fermionic.returns_solution", r is sol)

    return Task("C11.solve_fermionic.orchestration", ["C11", "C09"], [Q], body)


def _eigh_task():
    Q = "linalg.eigh_fermionic"

    def body(it):
        ctx = it.ctx
        from pyvc.core import SymDict, TOpaque
        from pyvc.builtins_model import LoopSpec

        VB = TOpaque("EigBlock")
        negv = z3.Function("eig_neg", VB.sort(), VB.sort())
        parf = z3.Function("sym_parity", z3.IntSort(), z3.IntSort())
        dcol = ctx.fresh("column_index_dual", TBool)
        a = SymObj(None, tag="a")
        a_s = SymObj(None, tag="a_synced")
        a_s.fields["indices"] = (SymObj(None, {"dual": SV(ctx.fresh("row_dual", TBool), TBool)}), SymObj(None, {"dual": SV(dcol, TBool)}))
        symm = SymObj(None, tag="symmetry")
        symm.fields["parity"] = BuiltinVal("parity", lambda it_, args, k: SV(parf(args[0].t), TInt))
        a_s.fields["symmetry"] = symm
        a.fields["phase_sync"] = BuiltinVal("a.phase_sync", lambda it_, args, k: a_s if not k.get("inplace") else a)
        it.neg_fn = {repr(VB): negv}
        ev = SymObj(None, tag="eigenvalues")
        blocks = SymDict(z3.Const("ev_has", z3.ArraySort(z3.IntSort(), z3.BoolSort())), z3.Const("ev_val", z3.ArraySort(z3.IntSort(), VB.sort())), TInt, VB, "ev")
        E0 = (blocks.has, blocks.val)
        ev.fields["blocks"] = blocks
        ev.fields["_blocks"] = blocks
        from pyvc.core import KeyIter

        ev.fields["sectors"] = KeyIter(blocks.has, TInt, blocks.val, VB, "keys")
        vecs = SymObj(None, tag="eigenvectors")
        calls = []

        def base(it_, args, k):
            calls.append(args)
            return (ev, vecs)

        it.summaries["linalg.eigh"] = base

        def inv(it_, env, g):
            vis = g["vis"]
            c = z3.Int("c!inv")
            return [
                ("keys_fixed", z3.ForAll([c], z3.Select(blocks.has, c) == z3.Select(E0[0], c))),
                ("visited_odd_negated", z3.ForAll([c], z3.Implies(z3.Select(vis, c), z3.Select(blocks.val, c) == z3.If(parf(c) != 0, negv(z3.Select(E0[1], c)), z3.Select(E0[1], c))))),
                ("unvisited_untouched", z3.ForAll([c], z3.Implies(z3.Not(z3.Select(vis, c)), z3.Select(blocks.val, c) == z3.Select(E0[1], c)))),
            ]

        it.loop_specs[(Q, 0)] = LoopSpec(carried={}, cells=[lambda env: blocks], invariant=inv)
        fn = it.module_lookup("linalg", "eigh_fermionic")
        r = it.call(fn, [a])
        ob = ctx.oblige
        ob("eigh_fermionic.operand_synchronised_out_of_place_before_blocks_are_read", len(calls) == 1 and calls[0][0] is a_s)
        ob("eigh_fermionic.returns_values_and_vectors", isinstance(r, tuple) and len(r) == 2 and r[0] is ev and r[1] is vecs)
        c = z3.Int("c!post")
        ket_then_bra = z3.Not(dcol)
        ob("eigh_fermionic.same_eigenvalue_sectors", z3.ForAll([c], z3.Select(blocks.has, c) == z3.Select(E0[0], c)))
        ob(
            "eigh_fermionic.odd_sector_eigenvalues_negated_iff_inner_pair_is_ket_then_bra",
            z3.ForAll([c], z3.Implies(z3.Select(E0[0], c), z3.Select(blocks.val, c) == z3.If(z3.And(ket_then_bra, parf(c) != 0), negv(z3.Select(E0[1], c)), z3.Select(E0[1], c)))),
        )

    return Task("C11.eigh_fermionic.orchestration", ["C11", "C09"], [Q], body, assumes=["convention documented in the source: the sign of the implicit W-dagger is put into the eigenvalues of odd sectors so that ev @ diag(el) @ ev.H == a"])


def tasks():
    return [_qr_svd_task("qr"), _qr_svd_task("svd"), _solve_task(), _eigh_task()]
