"""Sidecar contracts for the process-global state of abelian_core (C15):
default tensordot mode (getter / setter / context manager) and the LRU cache of fuse
block information.

A-hash: `hasher` (sha1 of pickle) is injective on its argument tuple, so a cached value is
a function of its key.  KeyCovers: the value computed by calc_fuse_block_info is a function
of the key tuple (index hash keys, sector tuple, symmetry, axes groups); the syntactic
read-set half of this is obligation `frames.key_covers` (pyvc/frames.py).
"""

import z3

from pyvc.core import SV, PyRaise, SymDict, SymObj, TBool, TInt, TOpaque
from pyvc.interp import BuiltinVal, GenVal
from pyvc.task import Task, check_call

MODE = TOpaque("Mode")
KEY = TOpaque("CacheKey")
INFO = TOpaque("FuseInfo")
TOK = TOpaque("Token")
G = ("abelian_core", "_DEFAULT_TENSORDOT_MODE")


def _mode_tasks():
    def body_set(it):
        old = SV(it.ctx.fresh("old", MODE), MODE)
        new = SV(it.ctx.fresh("new", MODE), MODE)
        setter = it.module_lookup("abelian_core", "set_default_tensordot_mode")
        getter = it.module_lookup("abelian_core", "get_default_tensordot_mode")
        it.globals[G] = old
        check_call(it, "get_default_tensordot_mode", getter, [], post=lambda r: [("returns_global", isinstance(r, SV) and r.t == old.t)])
        it.call(setter, [None])
        it.ctx.oblige("set_default_tensordot_mode.None_is_noop", it.globals[G] is old)
        it.call(setter, [new])
        g = it.globals[G]
        it.ctx.oblige("set_default_tensordot_mode.sets_global", isinstance(g, SV) and g.t == new.t)
        check_call(it, "get_default_tensordot_mode.after_set", getter, [], post=lambda r: [("returns_new", isinstance(r, SV) and r.t == new.t)])

    def body_ctx(scenario):
        def body(it):
            old = SV(it.ctx.fresh("old", MODE), MODE)
            mode = SV(it.ctx.fresh("mode", MODE), MODE)
            it.globals[G] = old
            fn = it.module_lookup("abelian_core", "default_tensordot_mode")
            seen = {"yields": 0}

            def on_yield(it_, v):
                seen["yields"] += 1
                g = it_.globals.get(G)
                it_.ctx.oblige("default_tensordot_mode.mode_active_inside_block", isinstance(g, SV) and g.t == mode.t)
                # the with-block may do anything to the global (e.g. nested set_default_tensordot_mode)
                it_.globals[G] = SV(it_.ctx.fresh("clobbered", MODE), MODE)
                if scenario == "exception":
                    raise PyRaise("RuntimeError", "raised inside the with-block")
                if scenario == "close":
                    raise PyRaise("GeneratorExit", "generator closed")
                return None

            it.on_yield = on_yield
            g = it.call(fn, [mode])
            it.ctx.oblige("default_tensordot_mode.is_generator_function", isinstance(g, GenVal))
            exc = None
            try:
                it.expand_generator(g)
            except PyRaise as e:
                exc = e.exc
            finally:
                it.on_yield = None
            it.ctx.oblige("default_tensordot_mode.yields_exactly_once", seen["yields"] == 1)
            cur = it.globals.get(G)
            it.ctx.oblige(f"default_tensordot_mode.restores_previous_mode_on_{scenario}_exit", isinstance(cur, SV) and cur.t == old.t)
            if scenario == "normal":
                it.ctx.oblige("default_tensordot_mode.no_exception_on_normal_exit", exc is None)
            else:
                it.ctx.oblige(f"default_tensordot_mode.{scenario}_propagates", exc == ("RuntimeError" if scenario == "exception" else "GeneratorExit"))

        return body

    out = [Task("C15.default_mode.get_set", ["C15"], ["abelian_core.set_default_tensordot_mode", "abelian_core.get_default_tensordot_mode"], body_set)]
    for sc in ("normal", "exception", "close"):
        out.append(
            Task(
                f"C15.default_mode.context_manager.{sc}",
                ["C15"],
                ["abelian_core.default_tensordot_mode"],
                body_ctx(sc),
                assumes=["contextlib.contextmanager semantics: the with-block runs at the yield; an exception in the block is re-raised at the yield; the block may write the global arbitrarily (havoc)"],
            )
        )
    return out


H = z3.Function("H", TOK.sort(), TOK.sort(), TOK.sort(), TOK.sort(), KEY.sort())
FBIK = z3.Function("FBIK", KEY.sort(), INFO.sort())


def _cache_task(scenario):
    """scenario: disabled | toolong | cached"""
    Q = "abelian_core.cached_fuse_block_info"

    def body(it):
        ctx = it.ctx
        hk, bl, sy, gr = (SV(ctx.fresh(n, TOK), TOK) for n in ("hashkeys", "sectors", "symmetry", "groups"))
        nblocks = ctx.fresh("nblocks", TInt)
        ctx.assume(nblocks >= 0)
        maxsize = ctx.fresh("maxsize", TInt)
        maxsectors = ctx.fresh("maxsectors", TInt)
        ctx.assume(maxsize >= 0)
        if scenario == "disabled":
            ctx.assume(maxsize == 0)
        elif scenario == "toolong":
            ctx.assume(z3.And(maxsize > 0, nblocks > maxsectors))
        else:
            ctx.assume(z3.And(maxsize > 0, nblocks <= maxsectors))
        size0 = ctx.fresh("size0", TInt)
        ctx.assume(size0 >= 0)
        cache = SymDict(
            z3.Const("cache_has", z3.ArraySort(KEY.sort(), z3.BoolSort())),
            z3.Const("cache_val", z3.ArraySort(KEY.sort(), INFO.sort())),
            KEY,
            INFO,
            "_fuseinfos",
            size=size0,
        )
        k = z3.Const("k!pre", KEY.sort())
        ctx.assume(z3.ForAll([k], z3.Implies(z3.Select(cache.has, k), z3.Select(cache.val, k) == FBIK(k))))  # CacheOK
        C0 = (cache.has, cache.val)
        it.globals[("abelian_core", "_fuseinfos")] = cache
        it.globals[("abelian_core", "_fuseinfo_cache_maxsize")] = SV(maxsize, TInt)
        it.globals[("abelian_core", "_fuseinfo_cache_maxsectors")] = SV(maxsectors, TInt)
        blocks = SymObj(None, {"$len": SV(nblocks, TInt), "$tuple": bl}, tag="blocks")
        indices = SymObj(None, {}, tag="indices")
        x = SymObj(None, {"blocks": blocks, "indices": indices, "symmetry": sy}, tag="self")
        key_term = H(hk.t, bl.t, sy.t, gr.t)
        ncalls = {"n": 0}

        def comp_hook(it_, e, env, kind, it0):
            if it0 is indices:
                return hk  # tuple(ix.hashkey() for ix in self.indices): the tuple of index hash keys
            return None

        it.comp_hook = comp_hook

        def hasher(it_, a, kw):
            t = a[0]
            ok = isinstance(t, tuple) and len(t) == 4 and all(isinstance(v, SV) and v.ty == TOK for v in t)
            it_.ctx.oblige("cached_fuse_block_info.key_is_hash_of_hashkeys_sectors_symmetry_groups", ok and z3.And(t[0].t == hk.t, t[1].t == bl.t, t[2].t == sy.t, t[3].t == gr.t))
            if not ok:
                from pyvc.core import Unsupported

                raise Unsupported("unexpected cache key shape")
            return SV(H(t[0].t, t[1].t, t[2].t, t[3].t), KEY)

        it.summaries["abelian_core.hasher"] = hasher

        def calc(it_, a, kw):
            ncalls["n"] += 1
            it_.ctx.oblige("cached_fuse_block_info.computes_for_the_given_arguments", a[0] is x and isinstance(a[1], SV) and a[1].t == gr.t)
            return SV(FBIK(key_term), INFO)  # KeyCovers

        it.summaries["abelian_core.calc_fuse_block_info"] = calc
        fn = it.module_lookup("abelian_core", "cached_fuse_block_info")

        def post(r):
            out = [("returns_fuse_info_of_arguments", isinstance(r, SV) and r.ty == INFO and r.t == FBIK(key_term))]
            c = it.globals[("abelian_core", "_fuseinfos")]
            out.append(("cache_object_kept", c is cache))
            kk = z3.Const("k!post", KEY.sort())
            out.append(("cache_consistent", z3.ForAll([kk], z3.Implies(z3.Select(cache.has, kk), z3.Select(cache.val, kk) == FBIK(kk)))))
            if scenario == "cached":
                out.append(("cache_bounded", cache.size <= z3.If(size0 > maxsize, size0, maxsize)))
                out.append(("at_most_one_computation", ncalls["n"] <= 1))
            else:
                out.append(("cache_untouched_keys", cache.has == C0[0]))
                out.append(("cache_untouched_size", cache.size == size0))
                out.append(("computed_directly", ncalls["n"] == 1))
            return out

        check_call(it, f"cached_fuse_block_info[{scenario}]", fn, [x, gr], post=post)

    return Task(
        f"C15.cached_fuse_block_info.{scenario}",
        ["C15"],
        [Q],
        body,
        assumes=[
            "A-hash: sha1(pickle(.)) injective on the key tuple (a cached value is a function of its key)",
            "KeyCovers: calc_fuse_block_info(x, groups) is a function of (index hash keys, sector tuple, symmetry, groups); syntactic half checked by frames.key_covers",
            "OrderedDict order abstracted: popitem(last=False) removes an arbitrary entry (sound for every order)",
        ],
    )


def tasks():
    return _mode_tasks() + [_cache_task(s) for s in ("disabled", "toolong", "cached")]
