"""Sidecar contract for fermionic_local_operators.build_local_fermionic_array (C18): the dense elements (bounded tier:
Jordan-Wigner oracle) are turned into a fermionic array with one ket leg and one bra leg per site, in this order:
(ket_0, ..., ket_{n-1}, bra_0, ..., bra_{n-1}) -- "sites not reversed" -- so the charge map of site i labels BOTH leg i
and leg n + i, kets are non-dual and bras dual, the symmetry is forwarded and the result is fermionic.
"""

from pyvc.core import SymObj
from pyvc.task import Task

Q = "fermionic_local_operators.build_local_fermionic_array"


def _body(it):
    ob = it.ctx.oblige
    fn = it.module_lookup("fermionic_local_operators", "build_local_fermionic_array")
    for n in (1, 2, 3):
        for as_list in (True, False):
            dense = SymObj(None, tag="dense_elements")
            calls, dcalls = [], []
            it.summaries["fermionic_local_operators.build_local_fermionic_dense"] = lambda it_, a, k, dcalls=dcalls, dense=dense: (dcalls.append((tuple(a), dict(k))) or dense)
            res = SymObj(None, tag="array")
            it.summaries["utils.from_dense"] = lambda it_, a, k, calls=calls, res=res: (calls.append((tuple(a), dict(k))) or res)
            terms, sym = SymObj(None, tag="terms"), SymObj(None, tag="symmetry")
            bases = tuple(SymObj(None, tag=f"basis{i}") for i in range(n))
            maps = [SymObj(None, tag=f"charge_map_of_site_{i}") for i in range(n)]
            maps = maps if as_list else tuple(maps)
            r = it.call(fn, [terms, bases, sym, maps], {})
            tag = f"build_local_fermionic_array[sites={n},maps_as_{'list' if as_list else 'tuple'}]"
            ob(tag + ".dense_elements_computed_once_from_terms_and_bases", len(dcalls) == 1 and dcalls[0][0][:2] == (terms, bases))
            ok = len(calls) == 1
            ob(tag + ".converted_once", ok and r is res)
            if not ok:
                continue
            a, k = calls[0]
            full = dict(zip(("array", "index_maps", "duals"), a))
            full.update(k)
            ob(tag + ".the_dense_elements_are_converted", full.get("array") is dense)
            im = full.get("index_maps")
            ob(tag + ".leg_i_and_leg_n_plus_i_carry_the_charge_map_of_site_i", isinstance(im, (list, tuple)) and len(im) == 2 * n and all(im[i] is maps[i] and im[n + i] is maps[i] for i in range(n)))
            du = full.get("duals")
            ob(tag + ".ket_legs_non_dual_then_bra_legs_dual", isinstance(du, (list, tuple)) and list(du) == [False] * n + [True] * n)
            ob(tag + ".symmetry_forwarded_and_result_fermionic", full.get("symmetry") is sym and full.get("fermionic") is True)


def tasks():
    return [Task("C18.build_local_fermionic_array.legs", ["C18"], [Q], _body, assumes=["callees: build_local_fermionic_dense / build_local_fermionic_elements and utils.from_dense: bounded tier (C18, C16)"])]
