"""Sidecar contract for the phased sort inside fermionic_local_operators.build_local_fermionic_elements (C18):
the real code from its first statement up to the end of the `while any_moves` bubble sort, for ONE term that is a
word of operators of ANY length (labels integers, see contracts/oddpos.py) sandwiched between vacuum basis states.

With the ghost G(word) of contracts/oddpos.py and rule R1 only (adjacent operators with DIFFERENT labels
anticommute -- operators with equal labels are never exchanged, so the sort is stable):
  * when the loop is left the word is sorted by label (non-decreasing),
  * it has the same length, and  phase * G(sorted word) == G(original word),  phase in {+1, -1},
  * the original word is [bra-basis operators..., term operators..., ket-basis operators...] in this order.
The vacuum pattern test and the accumulation into the element table that follow are not interpreted (dict of
lists): bounded tier (Jordan-Wigner oracle).
"""

import z3

from pyvc.builtins_model import LoopSpec, zlen
from pyvc.core import PathEnd, SymList, SymSeq
from pyvc.interp import I
from pyvc.task import Task, check_call

from .oddpos import FOP, G, lab, setup
from .util import fresh_seq

Q = "fermionic_local_operators.build_local_fermionic_elements"


def _view(v):
    if isinstance(v, (SymList, SymSeq)):
        return zlen(v.length), v.arr
    raise KeyError("element is not a symbolic list")


def _task():
    def body(it):
        setup(it)
        ctx = it.ctx
        term = fresh_seq(it, "term", FOP)
        nt = zlen(term.length)
        state = {}

        def common(env):
            n, w = _view(env.vars["element"])
            ph = I(env.vars["phase"])
            return n, w, ph

        def inv_while(it_, env, g):
            n, w, ph = common(env)
            if "w0" not in state:
                state["n0"], state["w0"] = n, w
            am = it_.truth(env.vars["any_moves"])
            j = z3.Int("j!so")
            return [
                ("phase_is_sign", z3.Or(ph == 1, ph == -1)),
                ("length_kept", n == state["n0"]),
                ("sign_times_value", ph * G(w, n) == G(state["w0"], state["n0"])),
                ("a_pass_without_moves_means_sorted", z3.Implies(z3.Not(am), z3.ForAll([j], z3.Implies(z3.And(j >= 0, j + 1 < n), lab(z3.Select(w, j)) <= lab(z3.Select(w, j + 1)))))),
            ]

        def inv_pass(it_, env, g):
            n, w, ph = common(env)
            k = g["k"]
            am = it_.truth(env.vars["any_moves"])
            j = z3.Int("j!ps")
            return [
                ("phase_is_sign", z3.Or(ph == 1, ph == -1)),
                ("length_kept", n == state["n0"]),
                ("sign_times_value", ph * G(w, n) == G(state["w0"], state["n0"])),
                ("no_move_so_far_means_the_pairs_seen_are_in_order", z3.Implies(z3.Not(am), z3.ForAll([j], z3.Implies(z3.And(j >= 0, j < k), lab(z3.Select(w, j)) <= lab(z3.Select(w, j + 1)))))),
            ]

        def lemmas_pass(it_, env, gpre):
            # R1 at the instance of this step: exchange of the adjacent operators at k, k+1 with different labels
            n_pre, w_pre = gpre["state"]["element"]
            k = gpre["k"]
            n_post, w_post = _view(env.vars["element"])
            a, b = z3.Select(w_pre, k), z3.Select(w_pre, k + 1)
            j = z3.Int("j!lem")
            is_swap = z3.And(n_post == n_pre, z3.Select(w_post, k) == b, z3.Select(w_post, k + 1) == a, z3.ForAll([j], z3.Implies(z3.And(j >= 0, j < n_pre, j != k, j != k + 1), z3.Select(w_post, j) == z3.Select(w_pre, j))))
            return [z3.Implies(z3.And(k >= 0, k + 1 < n_pre, lab(a) != lab(b), is_swap), G(w_post, n_post) == -G(w_pre, n_pre))]

        def after_sort(it_, env):
            n, w, ph = common(env)
            j = z3.Int("j!post")
            nm = "build_local_fermionic_elements.phased_sort"
            ob = ctx.oblige
            ob(nm + ".word_is_sorted_by_label", z3.ForAll([j], z3.Implies(z3.And(j >= 0, j + 1 < n), lab(z3.Select(w, j)) <= lab(z3.Select(w, j + 1)))))
            ob(nm + ".same_number_of_operators", n == state["n0"])
            ob(nm + ".phase_is_the_sign_of_the_anticommutations", z3.And(z3.Or(ph == 1, ph == -1), ph * G(w, n) == G(state["w0"], state["n0"])))
            ob(nm + ".the_word_sorted_is_the_term_between_the_vacuum_basis_states", z3.And(state["n0"] == nt, z3.ForAll([j], z3.Implies(z3.And(j >= 0, j < nt), z3.Select(state["w0"], j) == z3.Select(term.arr, j)))))
            raise PathEnd()

        it.loop_specs[(Q, 2)] = LoopSpec(carried={"any_moves": "bool", "phase": "int", "element": "inplace"}, invariant=inv_while)
        it.loop_specs[(Q, 3)] = LoopSpec(carried={"any_moves": "bool", "phase": "int", "element": "inplace"}, invariant=inv_pass, step_lemmas=lemmas_pass, target="k")
        it.loop_specs[(Q, 4)] = LoopSpec(carried={}, invariant=lambda it_, env, g: [], prepare=after_sort, target="x")
        fn = it.module_lookup("fermionic_local_operators", "build_local_fermionic_elements")
        check_call(it, "build_local_fermionic_elements", fn, [((2.5, term),), (((),),)])
        ctx.oblige("build_local_fermionic_elements.reaches_the_phased_sort", False)

    return Task(
        "C18.build_local_fermionic_elements.phased_sort",
        ["C18"],
        [Q, "fermionic_local_operators._parse_terms", "fermionic_local_operators._parse_bases", "fermionic_local_operators._dagger_basis", "fermionic_local_operators._ensure_fermionic_operator"],
        body,
        assumes=["T-grass rule R1 (adjacent operators with different labels anticommute) as a lemma instance at each exchange", "labels are integers (order-embedding, see contracts/oddpos.py)", "one site with the vacuum as its only basis state: the word is the term itself"],
        timeout_ms=30000,
    )


def tasks():
    return [_task()]
