"""Sidecar contract for symmray.interface (C08: "it behaves identically whether invoked as a method, a symmray
function or through autoray dispatch"; C02 / C03 for trace, einsum, transpose).

Every function-style entry point calls the method of the same name on its array argument exactly once, with every
argument it was given forwarded in the method's own order (keywords as keywords), and returns what the method
returned -- so whatever the method contracts establish carries over to the function route unchanged.  The
elementwise functions with a fallback (abs, sqrt, log, log2, log10) use the method when the object has one and
hand a non-symmray object to autoray under the SAME function name (once, not recursively).  The generic
`tensordot` stub multiplies when the first operand is a scalar and raises NotImplementedError for any other
unregistered type.
"""

from pyvc.core import PyRaise, SymObj
from pyvc.interp import BuiltinVal
from pyvc.task import Task

# name -> (positional argument names after the array, accepts **kwargs, position of the array among the arguments)
SIMPLE = {
    "conj": ((), True, 0),
    "max": ((), False, 0),
    "min": ((), False, 0),
    "sum": ((), False, 0),
    "all": ((), False, 0),
    "any": ((), False, 0),
    "isfinite": ((), False, 0),
    "abs": ((), False, 0),
    "sqrt": ((), False, 0),
    "log": ((), False, 0),
    "log2": ((), False, 0),
    "log10": ((), False, 0),
    "clip": (("a_min", "a_max"), False, 0),
    "squeeze": (("axis",), False, 0),
    "expand_dims": (("axis",), False, 0),
    "reshape": (("newshape",), True, 0),
    "einsum": (("eq",), False, 1),
    "transpose": (("axes",), True, 0),
    "trace": ((), False, 0),
    "multiply_diagonal": (("v", "axis"), False, 0),
    "align_axes": (("y", "axes"), False, 0),
}
FALLBACK = ("abs", "sqrt", "log", "log2", "log10")


def _body(it):
    ctx = it.ctx
    ob = ctx.oblige
    for name, (extra, has_kw, pos) in SIMPLE.items():
        fn = it.module_lookup("interface", name)
        log = []
        result = SymObj(None, tag=f"result_of_{name}")
        x = SymObj(None, tag="x")
        x.fields[name] = BuiltinVal(f"x.{name}", lambda it_, a, k, log=log, result=result: (log.append((tuple(a), dict(k))) or result))
        toks = [SymObj(None, tag=f"arg_{n}") for n in extra]
        args = list(toks)
        args.insert(pos, x)
        kw = {"some_option": SymObj(None, tag="kwarg")} if has_kw else {}
        r = it.call(fn, args, dict(kw))
        ob(f"interface.{name}.calls_the_method_once", len(log) == 1)
        if len(log) == 1:
            a, k = log[0]
            ob(f"interface.{name}.forwards_every_argument_in_the_methods_order", len(a) == len(toks) and all(p is q for p, q in zip(a, toks)))
            ob(f"interface.{name}.forwards_keywords", set(k) == set(kw) and all(k[z] is kw[z] for z in kw))
        ob(f"interface.{name}.returns_what_the_method_returned", r is result)
        # omitted optional arguments take the method's documented default (None)
        if name in ("squeeze", "transpose"):
            del log[:]
            r = it.call(fn, [x], {})
            ob(f"interface.{name}.omitted_argument_is_passed_as_None", len(log) == 1 and log[0][0] == (None,) and r is result)
    # fuse(x, *groups)
    fn = it.module_lookup("interface", "fuse")
    log = []
    result = SymObj(None, tag="fused")
    x = SymObj(None, tag="x")
    x.fields["fuse"] = BuiltinVal("x.fuse", lambda it_, a, k: (log.append((tuple(a), dict(k))) or result))
    r = it.call(fn, [x, (0, 1), (2,)], {})
    ob("interface.fuse.forwards_the_groups_unpacked", log == [(((0, 1), (2,)), {})] and r is result)
    # fallbacks: object without the method -> autoray under the same name
    for name in FALLBACK:
        fn = it.module_lookup("interface", name)
        calls = []
        res = SymObj(None, tag="ar_result")
        it.externals["ar.do"] = lambda it_, a, k, calls=calls, res=res: (calls.append((tuple(a), dict(k))) or res)
        y = SymObj(None, tag="plain_number")  # has no attributes: attribute access raises AttributeError
        try:
            r = it.call(fn, [y], {})
            ob(f"interface.{name}.non_symmray_argument_goes_to_autoray_once_under_the_same_name", len(calls) == 1 and calls[0][0][0] == name and calls[0][0][1] is y and r is res)
        except PyRaise as e:
            ob(f"interface.{name}.non_symmray_argument_does_not_raise_{e.exc}", False)
    # generic tensordot stub
    fn = it.module_lookup("interface", "tensordot")
    prod = SymObj(None, tag="product")
    mlog = []
    s = SymObj(it.get_class("block_core", "BlockBase"), tag="scalar_like") if False else SymObj(None, tag="scalar_like")
    s.fields["ndim"] = 0
    s.fields["__mul__"] = BuiltinVal("s.__mul__", lambda it_, a, k: (mlog.append(tuple(a)) or prod))
    b = SymObj(None, tag="b")
    it.binop_hook = lambda it_, op, l, r_: (mlog.append((l, r_)) or prod) if l is s else None
    r = it.call(fn, [s, b], {})
    ob("interface.tensordot.scalar_first_operand_multiplies", r is prod and len(mlog) == 1)
    t = SymObj(None, tag="unknown_type")
    t.fields["ndim"] = 3
    try:
        it.call(fn, [t, b], {})
        ob("interface.tensordot.unregistered_type_raises", False)
    except PyRaise as e:
        ob("interface.tensordot.unregistered_type_raises_NotImplementedError", e.exc == "NotImplementedError")


def tasks():
    return [
        Task(
            "C08.interface.dispatch",
            ["C08", "C02", "C03", "C07"],
            ["interface." + n for n in list(SIMPLE) + ["fuse", "tensordot"]],
            _body,
            assumes=["functools.singledispatch and autoray's name-based dispatch (ar.register_function / 'symmray' backend lookup) are library mechanisms: the registration table itself is checked by the bounded tier (three call routes)"],
        )
    ]
