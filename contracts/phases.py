"""Sidecar contracts for the lazy sign table of FermionicArray (C09, C03, C14, C01):
copy, phase_sync, phase_flip, phase_global, phase_sector, phase_transpose.

View: val(x, s) = eff(x, s) * block(x, s) for s in blocks, eff = phases.get(s, +1).
Every clause is stated over the whole view ("all other keys untouched" is explicit) and
every out-of-place call carries the frame clause "operand exactly as it was".
"""

import z3

from pyvc.builtins_model import LoopSpec, SUM_fn
from pyvc.core import SV, KeyIter, SymDict, SymObj, SymSeq, TBool, TInt
from pyvc.interp import I, StarSeq
from pyvc.task import Task, check_call

from .arrays import BLK, PAR, PERM, SEC, Snapshot, block_axioms, eff, fresh_result_clauses, install_hooks, kz, mk_farray, neg, par, parities, sec_at, smul
from .util import fresh_seq

FA = "fermionic_core.FermionicArray"
S = SUM_fn()


def sv(name):
    return z3.Const(name, SEC.sort())


def table_pm1(d, nm="s!pm"):
    s = sv(nm)
    return z3.ForAll([s], z3.Implies(z3.Select(d.has, s), z3.Or(z3.Select(d.val, s) == 1, z3.Select(d.val, s) == -1)))


def common_post(it, res, x, snap, inplace):
    out = []
    if inplace:
        out.append(("inplace_returns_receiver", res is x))
    else:
        out += fresh_result_clauses(res, x, snap)
        out += [("operand_" + n, t) for n, t in snap.unchanged()]
    return out


def blocks_same(res, B0, nm="s!bs"):
    """blocks of the result: same keys, identical block values"""
    s = sv(nm)
    rb = res.fields["_blocks"]
    return z3.ForAll([s], z3.And(z3.Select(rb.has, s) == z3.Select(B0[0], s), z3.Implies(z3.Select(B0[0], s), z3.Select(rb.val, s) == z3.Select(B0[1], s))))


def other_fields_same(res, snap):
    out = []
    for f in ("_indices", "_charge", "_oddpos", "_symmetry"):
        a, b = res.fields.get(f), snap.vals.get(f)
        if isinstance(a, SV) and isinstance(b, SV):
            out.append((f"result{f}_same", a.t == b.t))
        else:
            out.append((f"result{f}_same", a is b))
    return out


# ------------------------------------------------------------------ copy


def _copy_task():
    def body(it):
        install_hooks(it)
        x = mk_farray(it)
        snap = Snapshot(x)
        B0 = (x.fields["_blocks"].has, x.fields["_blocks"].val)
        P0 = (x.fields["_phases"].has, x.fields["_phases"].val)

        def post(res):
            out = fresh_result_clauses(res, x, snap) + [("operand_" + n, t) for n, t in snap.unchanged()]
            if isinstance(res, SymObj):
                out.append(("blocks_equal", blocks_same(res, B0)))
                rp = res.fields.get("_phases")
                ok = isinstance(rp, SymDict)
                out.append(("phases_is_dict", ok))
                if ok:
                    s = sv("s!cp")
                    out.append(("phases_equal", z3.ForAll([s], z3.And(z3.Select(rp.has, s) == z3.Select(P0[0], s), z3.Implies(z3.Select(P0[0], s), z3.Select(rp.val, s) == z3.Select(P0[1], s))))))
                out += other_fields_same(res, snap)
            return out

        check_call(it, "FermionicArray.copy", it.getattr(x, "copy"), [], post=post)

    return Task("C14.FermionicArray.copy", ["C14", "C09"], [FA + ".copy", "abelian_core.AbelianArray.copy", FA + ".phases", FA + ".oddpos"], body, axioms=block_axioms)


def _copy_with_task():
    def body(it):
        install_hooks(it)
        x = mk_farray(it)
        snap = Snapshot(x)
        B0 = (x.fields["_blocks"].has, x.fields["_blocks"].val)
        P0 = (x.fields["_phases"].has, x.fields["_phases"].val)

        def post(res):
            out = fresh_result_clauses(res, x, snap) + [("operand_" + n, t) for n, t in snap.unchanged()]
            if isinstance(res, SymObj):
                out.append(("blocks_equal", blocks_same(res, B0)))
                rp = res.fields.get("_phases")
                s = sv("s!cw")
                out.append(("phases_equal", isinstance(rp, SymDict) and z3.ForAll([s], z3.And(z3.Select(rp.has, s) == z3.Select(P0[0], s), z3.Implies(z3.Select(P0[0], s), z3.Select(rp.val, s) == z3.Select(P0[1], s))))))
                out += other_fields_same(res, snap)
            return out

        check_call(it, "FermionicArray.copy_with", it.getattr(x, "copy_with"), [], post=post)

    return Task("C14.FermionicArray.copy_with", ["C14", "C09"], [FA + ".copy_with", "abelian_core.AbelianArray.copy_with"], body, axioms=block_axioms)


# ------------------------------------------------------------------ phase_sync


def _phase_sync_task(inplace):
    def body(it):
        install_hooks(it)
        x = mk_farray(it)
        snap = Snapshot(x)
        B0 = (x.fields["_blocks"].has, x.fields["_blocks"].val)
        P0 = (x.fields["_phases"].has, x.fields["_phases"].val)

        def inv(it_, env, g):
            new = env.vars["new"]
            ph = env.vars["phases"]
            bl = new.fields["_blocks"]
            s = sv("s!inv")
            return [
                ("phases_is_table_of_new", new.fields["_phases"] is ph),
                ("keys_fixed", z3.ForAll([s], z3.Select(bl.has, s) == z3.Select(B0[0], s))),
                ("val_preserved", z3.ForAll([s], z3.Implies(z3.Select(B0[0], s), smul(eff(ph.has, ph.val, s), z3.Select(bl.val, s)) == smul(eff(P0[0], P0[1], s), z3.Select(B0[1], s))))),
                ("table_values_pm1", table_pm1(ph, "s!inv2")),
            ]

        it.loop_specs[(FA + ".phase_sync", 0)] = LoopSpec(
            carried={},
            cells=[lambda env: env.vars["phases"], lambda env: env.vars["new"].fields["_blocks"]],
            invariant=inv,
        )

        def post(res):
            out = common_post(it, res, x, snap, inplace)
            if isinstance(res, SymObj):
                rb, rp = res.fields["_blocks"], res.fields["_phases"]
                s = sv("s!post")
                out += [
                    ("table_empty", z3.ForAll([s], z3.Not(z3.Select(rp.has, s)))),
                    ("same_keys", z3.ForAll([s], z3.Select(rb.has, s) == z3.Select(B0[0], s))),
                    ("val_unchanged", z3.ForAll([s], z3.Implies(z3.Select(B0[0], s), z3.Select(rb.val, s) == smul(eff(P0[0], P0[1], s), z3.Select(B0[1], s))))),
                ]
                out += other_fields_same(res, snap)
            return out

        check_call(it, f"FermionicArray.phase_sync[inplace={inplace}]", it.getattr(x, "phase_sync"), [], {"inplace": inplace}, post=post)

    return Task(f"C09.phase_sync.inplace_{inplace}", ["C09", "C14", "C01"], [FA + ".phase_sync", FA + ".copy"], body, axioms=block_axioms, assumes=["Valid(x): every stored pending sign is +1 or -1 (part of the representation invariant, C01)"])


def _phase_sync_idempotent_task():
    def body(it):
        install_hooks(it)
        x = mk_farray(it)
        s = sv("s!e")
        it.ctx.assume(z3.ForAll([s], z3.Not(z3.Select(x.fields["_phases"].has, s))))
        B0 = (x.fields["_blocks"].has, x.fields["_blocks"].val)

        def inv(it_, env, g):
            return [("unreachable_body_placeholder", z3.BoolVal(True))]

        # with an empty table the loop body is unreachable: no invariant needed beyond `true`;
        it.loop_specs[(FA + ".phase_sync", 0)] = LoopSpec(carried={}, cells=[], invariant=inv)

        def post(res):
            rb, rp = res.fields["_blocks"], res.fields["_phases"]
            return [
                ("blocks_identical", blocks_same(res, B0)),
                ("table_still_empty", z3.ForAll([s], z3.Not(z3.Select(rp.has, s)))),
            ]

        check_call(it, "FermionicArray.phase_sync[idempotent]", it.getattr(x, "phase_sync"), [], post=post)

    return Task("C09.phase_sync.idempotent", ["C09"], [FA + ".phase_sync"], body, axioms=block_axioms)


# ------------------------------------------------------------------ phase_flip


def flipF(axs):
    """s |-> (sum of parities of sector s at the axes axs) % 2   as a z3 term builder"""
    i = z3.Int("mi!F")

    def F(s):
        return S(z3.Lambda([i], par(sec_at(s, z3.Select(axs.arr, i)))), axs.length) % 2

    return F


def _phase_flip_task(inplace):
    def body(it):
        install_hooks(it)
        x = mk_farray(it)
        snap = Snapshot(x)
        B0 = (x.fields["_blocks"].has, x.fields["_blocks"].val)
        P0 = (x.fields["_phases"].has, x.fields["_phases"].val)
        axs = fresh_seq(it, "axs", TInt)
        F = flipF(axs)

        def inv(it_, env, g):
            np_ = env.vars["new_phases"]
            vis = g["vis"]
            s = sv("s!inv")
            e0 = eff(P0[0], P0[1], s)
            e1 = eff(np_.has, np_.val, s)
            return [
                ("visited_flipped", z3.ForAll([s], z3.Implies(z3.Select(vis, s), e1 == e0 * (1 - 2 * F(s))))),
                ("unvisited_untouched", z3.ForAll([s], z3.Implies(z3.Not(z3.Select(vis, s)), z3.And(z3.Select(np_.has, s) == z3.Select(P0[0], s), z3.Select(np_.val, s) == z3.Select(P0[1], s))))),
                ("table_values_pm1", table_pm1(np_, "s!inv2")),
            ]

        it.loop_specs[(FA + ".phase_flip", 0)] = LoopSpec(carried={"new_phases": "inplace"}, invariant=inv)

        def post(res):
            out = common_post(it, res, x, snap, inplace)
            if isinstance(res, SymObj):
                rp = res.fields["_phases"]
                s = sv("s!post")
                e0 = eff(P0[0], P0[1], s)
                e1 = eff(rp.has, rp.val, s)
                out += [
                    ("blocks_untouched", blocks_same(res, B0)),
                    ("stored_sectors_flipped_iff_odd", z3.ForAll([s], z3.Implies(z3.Select(B0[0], s), e1 == z3.If(axs.length == 0, e0, e0 * (1 - 2 * F(s)))))),
                    ("other_entries_untouched", z3.ForAll([s], z3.Implies(z3.Not(z3.Select(B0[0], s)), z3.And(z3.Select(rp.has, s) == z3.Select(P0[0], s), z3.Implies(z3.Select(P0[0], s), z3.Select(rp.val, s) == z3.Select(P0[1], s)))))),
                    ("table_values_pm1", table_pm1(rp, "s!post2")),
                ]
                out += other_fields_same(res, snap)
            return out

        check_call(it, f"FermionicArray.phase_flip[inplace={inplace}]", it.getattr(x, "phase_flip"), [StarSeq(axs)], {"inplace": inplace}, post=post)

    return Task(f"C03.phase_flip.inplace_{inplace}", ["C03", "C09", "C14", "C01"], [FA + ".phase_flip", FA + ".modify", "abelian_core.AbelianArray.modify", "block_core.BlockBase.sectors"], body, axioms=block_axioms)


# ------------------------------------------------------------------ phase_global


def _phase_global_task(inplace):
    def body(it):
        install_hooks(it)
        x = mk_farray(it)
        snap = Snapshot(x)
        B0 = (x.fields["_blocks"].has, x.fields["_blocks"].val)
        P0 = (x.fields["_phases"].has, x.fields["_phases"].val)

        def inv(it_, env, g):
            new = env.vars["new"]
            ph = new.fields["_phases"]
            vis = g["vis"]
            s = sv("s!inv")
            return [
                ("visited_negated", z3.ForAll([s], z3.Implies(z3.Select(vis, s), eff(ph.has, ph.val, s) == -eff(P0[0], P0[1], s)))),
                ("unvisited_untouched", z3.ForAll([s], z3.Implies(z3.Not(z3.Select(vis, s)), z3.And(z3.Select(ph.has, s) == z3.Select(P0[0], s), z3.Select(ph.val, s) == z3.Select(P0[1], s))))),
                ("table_values_pm1", table_pm1(ph, "s!inv2")),
            ]

        it.loop_specs[(FA + ".phase_global", 0)] = LoopSpec(carried={}, cells=[lambda env: env.vars["new"].fields["_phases"]], invariant=inv)

        def post(res):
            out = common_post(it, res, x, snap, inplace)
            if isinstance(res, SymObj):
                rp = res.fields["_phases"]
                s = sv("s!post")
                out += [
                    ("blocks_untouched", blocks_same(res, B0)),
                    ("every_stored_sector_negated", z3.ForAll([s], z3.Implies(z3.Select(B0[0], s), eff(rp.has, rp.val, s) == -eff(P0[0], P0[1], s)))),
                    ("other_entries_untouched", z3.ForAll([s], z3.Implies(z3.Not(z3.Select(B0[0], s)), z3.And(z3.Select(rp.has, s) == z3.Select(P0[0], s), z3.Implies(z3.Select(P0[0], s), z3.Select(rp.val, s) == z3.Select(P0[1], s)))))),
                    ("table_values_pm1", table_pm1(rp, "s!post2")),
                ]
                out += other_fields_same(res, snap)
            return out

        check_call(it, f"FermionicArray.phase_global[inplace={inplace}]", it.getattr(x, "phase_global"), [], {"inplace": inplace}, post=post)

    return Task(f"C04.phase_global.inplace_{inplace}", ["C04", "C09", "C14", "C01"], [FA + ".phase_global"], body, axioms=block_axioms)


# ------------------------------------------------------------------ phase_sector


def _phase_sector_task(inplace):
    def body(it):
        install_hooks(it)
        x = mk_farray(it)
        snap = Snapshot(x)
        B0 = (x.fields["_blocks"].has, x.fields["_blocks"].val)
        P0 = (x.fields["_phases"].has, x.fields["_phases"].val)
        k = SV(it.ctx.fresh("sector", SEC), SEC)

        def post(res):
            out = common_post(it, res, x, snap, inplace)
            if isinstance(res, SymObj):
                rp = res.fields["_phases"]
                s = sv("s!post")
                out += [
                    ("blocks_untouched", blocks_same(res, B0)),
                    ("that_sector_negated", eff(rp.has, rp.val, k.t) == -eff(P0[0], P0[1], k.t)),
                    ("all_other_entries_untouched", z3.ForAll([s], z3.Implies(s != k.t, z3.And(z3.Select(rp.has, s) == z3.Select(P0[0], s), z3.Implies(z3.Select(P0[0], s), z3.Select(rp.val, s) == z3.Select(P0[1], s)))))),
                    ("table_values_pm1", table_pm1(rp, "s!post2")),
                ]
            return out

        check_call(it, f"FermionicArray.phase_sector[inplace={inplace}]", it.getattr(x, "phase_sector"), [k], {"inplace": inplace}, post=post)

    return Task(f"C09.phase_sector.inplace_{inplace}", ["C09", "C14"], [FA + ".phase_sector"], body, axioms=block_axioms)


# ------------------------------------------------------------------ phase_transpose


def _phase_transpose_task(inplace, with_axes):
    def body(it):
        install_hooks(it)
        x = mk_farray(it)
        snap = Snapshot(x)
        B0 = (x.fields["_blocks"].has, x.fields["_blocks"].val)
        P0 = (x.fields["_phases"].has, x.fields["_phases"].val)
        if with_axes:
            axes = SV(it.ctx.fresh("axes", PERM), PERM)
            pt = axes.t
        else:
            axes = None
            from .arrays import NONE_PERM

            pt = NONE_PERM

        def inv(it_, env, g):
            new = env.vars["new"]
            ph = new.fields["_phases"]
            vis = g["vis"]
            s = sv("s!inv")
            return [
                ("visited_multiplied_by_koszul", z3.ForAll([s], z3.Implies(z3.Select(vis, s), eff(ph.has, ph.val, s) == eff(P0[0], P0[1], s) * kz(parities(s), pt)))),
                ("unvisited_untouched", z3.ForAll([s], z3.Implies(z3.Not(z3.Select(vis, s)), z3.And(z3.Select(ph.has, s) == z3.Select(P0[0], s), z3.Select(ph.val, s) == z3.Select(P0[1], s))))),
                ("table_values_pm1", table_pm1(ph, "s!inv2")),
            ]

        it.loop_specs[(FA + ".phase_transpose", 0)] = LoopSpec(carried={}, cells=[lambda env: env.vars["new"].fields["_phases"]], invariant=inv)

        def post(res):
            out = common_post(it, res, x, snap, inplace)
            if isinstance(res, SymObj):
                rp = res.fields["_phases"]
                s = sv("s!post")
                out += [
                    ("blocks_untouched", blocks_same(res, B0)),
                    ("stored_sectors_get_koszul_sign", z3.ForAll([s], z3.Implies(z3.Select(B0[0], s), eff(rp.has, rp.val, s) == eff(P0[0], P0[1], s) * kz(parities(s), pt)))),
                    ("other_entries_untouched", z3.ForAll([s], z3.Implies(z3.Not(z3.Select(B0[0], s)), z3.And(z3.Select(rp.has, s) == z3.Select(P0[0], s), z3.Implies(z3.Select(P0[0], s), z3.Select(rp.val, s) == z3.Select(P0[1], s)))))),
                    ("table_values_pm1", table_pm1(rp, "s!post2")),
                ]
                out += other_fields_same(res, snap)
            return out

        args = [axes] if with_axes else []
        check_call(it, f"FermionicArray.phase_transpose[inplace={inplace},axes={'given' if with_axes else 'None'}]", it.getattr(x, "phase_transpose"), args, {"inplace": inplace}, post=post)

    return Task(
        f"C03.phase_transpose.inplace_{inplace}.{'axes' if with_axes else 'reversal'}",
        ["C03", "C09", "C14"],
        [FA + ".phase_transpose"],
        body,
        axioms=block_axioms,
        assumes=["callee contract calc_phase_permutation(parities, perm) == ghost kz(parities, perm) in {+1,-1} (contracts/koszul.py)"],
    )


def tasks():
    out = [_copy_task(), _copy_with_task(), _phase_sync_idempotent_task()]
    for ip in (False, True):
        out += [_phase_sync_task(ip), _phase_flip_task(ip), _phase_global_task(ip), _phase_sector_task(ip), _phase_transpose_task(ip, True), _phase_transpose_task(ip, False)]
    return out
