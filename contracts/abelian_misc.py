"""Sidecar contracts for AbelianArray.sync_charges (C01, C14; rank 2, any number of blocks) and the composed
conveniences dagger / H / T (C08, C10, C14).

sync_charges(): every index table keeps exactly the charges that occur in some stored sector (the very same index
object if nothing is dropped), sizes and directions unchanged; blocks and charge untouched; out of place: a new array,
operand untouched; in place: the receiver.

dagger(inplace): the conjugate (in / out of place as asked) transposed IN PLACE with the default (reversing) axes --
never a second copy, never a transpose of the operand itself when out of place; H == dagger(), T == transpose().
"""

import z3

from pyvc.builtins_model import LoopSpec
from pyvc.core import SV, SymObj
from pyvc.interp import BuiltinVal
from pyvc.task import Task, check_call

from .linalg_bonds import install, k0, k1, mk_matrix
from .util import TUP2

SQ = "abelian_core.AbelianArray.sync_charges"


def _sync_task(inplace):
    def body(it):
        install(it)
        x, bl, i0, i1, ch = mk_matrix(it, "U1", "x")
        B0 = (bl.has, bl.val)
        idx = (i0, i1)
        CM0 = [(ix.fields["_chargemap"].has, ix.fields["_chargemap"].val) for ix in idx]
        c = z3.Int("c!sy")
        u = z3.Const("u!sy", TUP2.sort())
        comp = (k0, k1)

        def inv(it_, env, g):
            vis = g["vis"]
            cd = env.vars["charges_drop"]
            out = []
            for ax in range(2):
                used = z3.Exists([u], z3.And(z3.Select(vis, u), comp[ax](u) == c))
                out.append((f"axis{ax}_droppable_charges_are_those_not_used_so_far", z3.ForAll([c], z3.Select(cd[ax].has, c) == z3.And(z3.Select(CM0[ax][0], c), z3.Not(used)))))
            return out

        it.loop_specs[(SQ, 0)] = LoopSpec(carried={}, cells=[lambda env: env.vars["charges_drop"][0], lambda env: env.vars["charges_drop"][1]], invariant=inv, target="sector")
        m, _ = x.cls.lookup("sync_charges")

        def post(r):
            ok = isinstance(r, SymObj)
            out = [("returns_an_array", ok)]
            if not ok:
                return out
            if inplace:
                out.append(("in_place_returns_the_receiver", r is x))
            else:
                out += [("out_of_place_returns_a_new_array", r is not x), ("operand_indices_untouched", x.fields["_indices"] == idx)]
                for ax in range(2):
                    cm = idx[ax].fields["_chargemap"]
                    out.append((f"operand_table_{ax}_untouched", z3.And(cm.has == CM0[ax][0], cm.val == CM0[ax][1])))
            out.append(("operand_blocks_untouched", x.fields["_blocks"] is bl and z3.And(bl.has == B0[0], bl.val == B0[1])))
            rb = r.fields["_blocks"]
            out.append(("result_has_the_same_blocks", z3.And(rb.has == B0[0], rb.val == B0[1])))
            if not inplace:
                out.append(("result_block_dict_not_shared", rb is not bl))
            out.append(("charge_kept", r.fields["_charge"] is x.fields["_charge"] or r.fields["_charge"].t == ch))
            inds = r.fields["_indices"]
            okr = isinstance(inds, tuple) and len(inds) == 2
            out.append(("rank_kept", okr))
            if not okr:
                return out
            for ax in range(2):
                cm = inds[ax].fields["_chargemap"]
                used = z3.Exists([u], z3.And(z3.Select(B0[0], u), comp[ax](u) == c))
                some_unused = z3.Exists([c], z3.And(z3.Select(CM0[ax][0], c), z3.Not(used)))
                if inds[ax] is idx[ax]:
                    out.append((f"axis{ax}_same_index_object_only_if_every_charge_is_used", z3.Not(some_unused)))
                else:
                    out.append((f"axis{ax}_new_index_only_if_some_charge_unused", some_unused))
                    out.append((f"axis{ax}_table_keeps_exactly_the_charges_of_stored_sectors", z3.ForAll([c], z3.Select(cm.has, c) == z3.And(z3.Select(CM0[ax][0], c), used))))
                    out.append((f"axis{ax}_sizes_unchanged", z3.ForAll([c], z3.Implies(z3.Select(cm.has, c), z3.Select(cm.val, c) == z3.Select(CM0[ax][1], c)))))
                    d_new, d_old = inds[ax].fields["_dual"], idx[ax].fields["_dual"]
                    out.append((f"axis{ax}_direction_unchanged", d_new.t == d_old.t if isinstance(d_new, SV) else d_new is d_old))
            return out

        check_call(it, f"sync_charges[inplace={inplace}]", m, [x], {"inplace": inplace}, post=post)

    return Task(
        f"C01.sync_charges.inplace_{inplace}",
        ["C01", "C14", "C06"],
        [SQ, "abelian_core.BlockIndex.drop_charges", "abelian_core.BlockIndex.copy_with", "abelian_core.AbelianArray.copy_with", "abelian_core.AbelianArray.modify"],
        body,
        bounded_rank="rank 2; blocks, charges, sizes unbounded",
        assumes=["set comprehension / discard semantics (A-builtins); BlockIndex tables are sorted copies (order abstracted)"],
        timeout_ms=40000,
    )


def _dagger_task():
    def body(it):
        ctx = it.ctx
        ob = ctx.oblige
        cls = it.get_class("abelian_core", "AbelianArray")
        for inplace in (False, True):
            log = []
            x = SymObj(cls, tag="x")
            y = SymObj(cls, tag="conjugate_of_x")

            def conj(it_, a, k, log=log, x=x, y=y):
                log.append(("x", "conj", tuple(a), dict(k)))
                return x if k.get("inplace") else y

            def tr(who):
                def f(it_, a, k, log=log):
                    log.append((who, "transpose", tuple(a), dict(k)))
                    return {"x": x, "y": y}[who]

                return f

            x.fields["conj"] = BuiltinVal("x.conj", conj)
            x.fields["transpose"] = BuiltinVal("x.transpose", tr("x"))
            y.fields["transpose"] = BuiltinVal("y.transpose", tr("y"))
            m, _ = cls.lookup("dagger")
            r = it.call(m, [x], {"inplace": inplace})
            tag = f"AbelianArray.dagger[inplace={inplace}]"
            ob(tag + ".conjugates_once_then_transposes_once", [e[1] for e in log] == ["conj", "transpose"])
            if [e[1] for e in log] == ["conj", "transpose"]:
                ob(tag + ".conjugation_in_or_out_of_place_as_asked", bool(log[0][3].get("inplace", False)) == inplace and log[0][2] == ())
                ob(tag + ".transpose_with_default_axes_in_place_on_the_conjugate", log[1][0] == ("x" if inplace else "y") and log[1][3].get("inplace") is True and log[1][2] in ((), (None,)) and log[1][3].get("axes") is None)
            ob(tag + ".returns_the_transposed_conjugate", r is (x if inplace else y))
        # H and T
        for prop, meth in (("H", "dagger"), ("T", "transpose")):
            log = []
            x = SymObj(cls, tag="x")
            res = SymObj(cls, tag="res")
            x.fields[meth] = BuiltinVal("x." + meth, lambda it_, a, k, log=log, res=res: (log.append((tuple(a), dict(k))) or res))
            r = it.getattr(x, prop)
            ob(f"AbelianArray.{prop}.is_{meth}_out_of_place_with_defaults", r is res and log == [((), {})])

    return Task("C08.AbelianArray.dagger_H_T", ["C08", "C10", "C14"], ["abelian_core.AbelianArray.dagger", "abelian_core.AbelianArray.H", "abelian_core.AbelianArray.T"], body, assumes=["callee contracts: AbelianArray.conj / transpose (contracts/abelian_ops.py, transpose_axes.py)"])


def tasks():
    return [_sync_task(False), _sync_task(True), _dagger_task()]
