"""Sidecar contract for abelian_core.calc_reshape_args (C07) -- the axis matcher behind reshape.

The real function is executed symbolically (path splitting) on shapes whose NUMBER of axes and whose
pattern of previously fused axes are fixed per task and whose SIZES are symbolic positive integers:

The requests are exactly those of the property's quantifier, enumerated as RECIPES over a shape with
n <= 4 axes (5 in the thorough tier; plus, for 7 axes -- thorough: 6 to 8 -- the merge recipes whose groups have\none or two axes, which is where several separate runs of fuse groups first occur) of symbolic sizes d0.. >= 1 (a rank-bounded proof, complete for every size assignment):

  forward   drop any subset of axes (those are assumed to have size one) and merge the remaining ones
            into adjacent groups: the target entries are the products of the group sizes;
  back      from the shape that the forward plan produces (every merged axis remembers the sizes of all
            the axes grouped into it and may be smaller than their product: block-sparse arrays) to
            the original shape;
  expand    targets with one or two new size-one axes at any position (optionally with a merge), and back;
  identity  a request for the current shape, where up to two axes are previously fused axes with
            arbitrary pairs of sub sizes.

Contract, from the property statement ("reshape only regroups axes"):

  S  the call returns (no exception at all), the plan is well formed (unfuse only axes that have sub
     sizes, fuse groups are non-empty contiguous runs forming a run of adjacent groups in order, expand
     positions inside the shape) and applying it -- unfuse: an axis is replaced by its sub sizes; fuse:
     a group is replaced by the product of its sizes; expand: a size-one axis is inserted -- gives
     exactly the requested shape;
  I  a request for the current shape returns the empty plan.

I is split by whether a fused axis' sub sizes literally equal the following target entries (then the
routine unfuses although nothing has to change: known finding F17); S fails for the request () from a
shape whose axes all have size one (IndexError: known finding F16).
"""

import itertools

import z3

from pyvc.core import SV, TInt
from pyvc.task import Task, check_call, thorough

Q = "abelian_core.calc_reshape_args"
MAX_N = 4


class PlanError(Exception):
    pass


def apply_plan(shape, subsizes, plan, track=False):
    """-> list of z3 terms (the shape after the plan); raises PlanError if the plan is malformed"""
    axs_unfuse, groupings, axs_expand = plan
    cur, subs = list(shape), list(subsizes)
    for ax in axs_unfuse:
        if not isinstance(ax, int) or not (0 <= ax < len(cur)) or subs[ax] is None:
            raise PlanError(f"unfuse of axis {ax} which has no sub sizes")
        cur[ax : ax + 1] = list(subs[ax])
        subs[ax : ax + 1] = [None] * len(subs[ax])
    for grouping in groupings:
        flat = [a for g in grouping for a in g]
        if not grouping or any(not isinstance(a, int) for a in flat) or len(set(flat)) != len(flat):
            raise PlanError(f"groups overlap / empty grouping: {grouping}")
        for g in grouping:
            if not g or list(g) != list(range(g[0], g[0] + len(g))) or g[0] < 0 or g[-1] >= len(cur):
                raise PlanError(f"group {g} empty, not contiguous or outside the shape")
        if sorted(flat) != list(range(min(flat), max(flat) + 1)) or flat != sorted(flat):
            raise PlanError(f"grouping {grouping} is not a run of adjacent groups in order")
        lo = min(flat)
        new, newsubs = cur[:lo], subs[:lo]
        for g in grouping:
            p = cur[g[0]]
            for a in g[1:]:
                p = p * cur[a]
            new.append(p)
            newsubs.append(subs[g[0]] if len(g) == 1 else tuple(cur[a] for a in g))
        new += cur[max(flat) + 1 :]
        newsubs += subs[max(flat) + 1 :]
        cur, subs = new, newsubs
    for ax in axs_expand:
        if not isinstance(ax, int) or not (0 <= ax <= len(cur)):
            raise PlanError(f"expand position {ax} outside the shape")
        cur.insert(ax, z3.IntVal(1))
        subs.insert(ax, None)
    if track:
        return cur, subs
    return cur


def _to_py(v):
    """plan returned by the interpreter -> nested python tuples of ints (control flow is concrete per path)"""
    if isinstance(v, (tuple, list)):
        return tuple(_to_py(x) for x in v)
    if isinstance(v, SV):
        t = z3.simplify(v.t)
        if z3.is_int_value(t):
            return t.as_long()
        raise PlanError("plan entry is not concrete on this path")
    return v


def _compositions(n):
    """all ways to cut range(n) into consecutive non-empty runs"""
    if n == 0:
        return [[]]
    out = []
    for cuts in range(2 ** (n - 1)):
        runs, cur = [], [0]
        for i in range(1, n):
            if (cuts >> (i - 1)) & 1:
                runs.append(cur)
                cur = []
            cur.append(i)
        runs.append(cur)
        out.append(runs)
    return out


def _check(it, nm, shape, subs, target, witness_sizes):
    ctx = it.ctx
    ctx.witness = {
        "hints": [x <= 6 for x in witness_sizes],
        "terms": {"shape": list(shape), "newshape": list(target), "subsizes": [list(sb) if sb else [] for sb in subs]},
    }
    wrap = lambda t: t if isinstance(t, int) else SV(t, TInt)  # noqa: E731
    fn = it.module_lookup("abelian_core", "calc_reshape_args")
    it.while_unroll_bound = 8
    args = [tuple(wrap(x) for x in shape), tuple(wrap(x) for x in target), tuple(None if sb is None else tuple(wrap(x) for x in sb) for sb in subs)]
    res, exc = check_call(it, nm, fn, args)
    if exc is not None:
        return None
    try:
        plan = _to_py(res)
        ok = isinstance(plan, tuple) and len(plan) == 3
        got = apply_plan([z3.IntVal(x) if isinstance(x, int) else x for x in shape], subs, plan) if ok else None
    except PlanError as ex:
        ctx.oblige(nm + ".plan_is_well_formed", False, {"msg": str(ex)})
        return None
    ctx.oblige(nm + ".returns_three_tuples", ok)
    if not ok:
        return None
    ctx.oblige(nm + ".plan_is_well_formed", True)
    ctx.oblige(nm + ".plan_gives_requested_number_of_axes", len(got) == len(target))
    if len(got) == len(target):
        ctx.oblige(nm + ".plan_reaches_the_requested_shape", z3.And(*[g == t for g, t in zip(got, target)]) if target else True)
    return plan


def _recipe_tasks(n, small_groups_only=False):
    """small_groups_only: for larger n only the recipes without dropped axes whose groups have one or two axes
    (several runs of adjacent fuse groups separated by untouched axes need >= 7 axes)"""
    out = []
    for k in range(n + 1):
        if small_groups_only and k > 0:
            break
        for drop in itertools.combinations(range(n), k):
            kept = [i for i in range(n) if i not in drop]
            for runs in _compositions(len(kept)):
                if small_groups_only and (max(len(r) for r in runs) > 2 or all(len(r) == 1 for r in runs)):
                    continue
                groups = [[kept[j] for j in r] for r in runs]
                tag = "drop" + ("".join(map(str, drop)) or "-") + ".merge" + ("|".join("".join(map(str, g)) for g in groups) or "-")

                def body(it, drop=drop, groups=groups, tag=tag, direction="forward"):
                    ctx = it.ctx
                    d = [ctx.fresh(f"d{i}", TInt) for i in range(n)]
                    for i, x in enumerate(d):
                        ctx.assume(x == 1 if i in drop else x >= 1)
                    target = []
                    for g in groups:
                        p = d[g[0]]
                        for a in g[1:]:
                            p = p * d[a]
                        target.append(p)
                    if direction == "forward":
                        _check(it, f"calc_reshape_args[n={n},{tag}].forward", d, [None] * n, target, d)
                    else:
                        # the trip back starts from what the forward plan produces: every merged axis remembers
                        # the sizes of ALL the axes grouped into it (also the size-one axes the plan attached to
                        # it) and -- block-sparse arrays -- may be smaller than their product: 1 <= m <= product
                        nmf = f"calc_reshape_args[n={n},{tag}].there"
                        plan = _check(it, nmf, d, [None] * n, target, d)
                        if plan is None:
                            return
                        msh, msubs = apply_plan(list(d), [None] * n, plan, track=True)
                        extra = []
                        for q, sb in enumerate(msubs):
                            if sb is not None:
                                m = ctx.fresh("m", TInt)
                                ctx.assume(z3.And(m >= 1, m <= msh[q]))
                                msh[q] = m
                                extra.append(m)
                        _check(it, f"calc_reshape_args[n={n},{tag}].and_back", msh, msubs, d, d + extra)

                for direction in ("forward", "back"):
                    out.append(
                        Task(
                            f"C07.calc_reshape_args.n{n}.{tag}.{direction}",
                            ["C07"],
                            [Q],
                            (lambda it, body=body, direction=direction: body(it, direction=direction)),
                            bounded_rank=f"shape with {n} axes, recipe {tag} ({direction}); every size symbolic",
                            assumes=["products of sizes are integer products (nonlinear integer arithmetic in the solver); functools.lru_cache dropped (pure function)"],
                            timeout_ms=20000,
                        )
                    )
    return out


def _expand_tasks(n):
    """targets with one or two NEW size-one axes (the reverse of dropping them), optionally together with a
    merge of the first two axes; and the way back"""
    out = []
    gaps = list(range(n + 1))
    ones = [(g,) for g in gaps] + [(g, h) for g in gaps for h in gaps if g <= h]
    for pos in ones:
        for merge in ((False, True) if n >= 2 else (False,)):
            if merge and 1 in pos:
                continue  # a new axis between the merged axes is not a target of this recipe
            tag = "ones_at" + "".join(map(str, pos)) + (".merge01" if merge else "")

            def body(it, pos=pos, merge=merge, tag=tag):
                ctx = it.ctx
                d = [ctx.fresh(f"d{i}", TInt) for i in range(n)]
                for x in d:
                    ctx.assume(x >= 1)
                base = ([d[0] * d[1]] + d[2:]) if merge else list(d)
                # gap indices refer to the original axes; after a merge of axes 0,1 gap 1 disappears
                target = []
                gp = sorted(pos)
                src = list(range(n + 1))
                items = []
                for g in src:
                    items += [z3.IntVal(1)] * gp.count(g)
                    if g < n:
                        items.append(("ax", g))
                # rebuild with the merge applied
                t, skip = [], False
                for x in items:
                    if isinstance(x, tuple):
                        g = x[1]
                        if merge and g == 0:
                            t.append(d[0] * d[1])
                        elif merge and g == 1:
                            continue
                        else:
                            t.append(d[g])
                    else:
                        t.append(x)
                target = t
                nmf = f"calc_reshape_args[n={n},{tag}].there"
                plan = _check(it, nmf, d, [None] * n, target, d)
                if plan is None:
                    return
                msh, msubs = apply_plan(list(d), [None] * n, plan, track=True)
                extra = []
                for q, sb in enumerate(msubs):
                    if sb is not None:
                        m = ctx.fresh("m", TInt)
                        ctx.assume(z3.And(m >= 1, m <= msh[q]))
                        msh[q] = m
                        extra.append(m)
                _check(it, f"calc_reshape_args[n={n},{tag}].and_back", msh, msubs, d, d + extra)

            out.append(
                Task(
                    f"C07.calc_reshape_args.n{n}.{tag}.roundtrip",
                    ["C07"],
                    [Q],
                    body,
                    bounded_rank=f"shape with {n} axes, new size-one axes at gaps {pos}" + (", axes 0,1 merged" if merge else "") + "; every size symbolic",
                    timeout_ms=20000,
                )
            )
    return out


def _identity_task(n, pattern):
    pat = "".join("P" if p else "_" for p in pattern) or "-"

    def body(it):
        ctx = it.ctx
        d = [ctx.fresh(f"d{i}", TInt) for i in range(n)]
        for x in d:
            ctx.assume(x >= 1)
        subs, extra = [], []
        for i, p in enumerate(pattern):
            if p:
                a, b = ctx.fresh(f"p{i}", TInt), ctx.fresh(f"q{i}", TInt)
                ctx.assume(z3.And(a >= 1, b >= 1, d[i] <= a * b))
                subs.append((a, b))
                extra += [a, b]
            else:
                subs.append(None)
        nm = f"calc_reshape_args[n={n},subs={pat}].identity"
        # does some fused axis' pair of sub sizes literally equal the next two target entries?
        match = [z3.And(sb[0] == d[i], sb[1] == d[i + 1]) for i, sb in enumerate(subs) if sb is not None and i + 1 < n]
        lit = z3.Or(*match) if match else z3.BoolVal(False)
        ctx.witness = {"hints": [x <= 6 for x in d + extra], "terms": {"shape": list(d), "newshape": list(d), "subsizes": [list(sb) if sb else [] for sb in subs]}}
        wrap = lambda t: SV(t, TInt)  # noqa: E731
        fn = it.module_lookup("abelian_core", "calc_reshape_args")
        it.while_unroll_bound = 8
        res, exc = check_call(it, nm, fn, [tuple(wrap(x) for x in d), tuple(wrap(x) for x in d), tuple(None if sb is None else tuple(wrap(x) for x in sb) for sb in subs)], raises={"ValueError": lambda it_: lit, "IndexError": lambda it_: lit})
        if exc is not None:
            return
        try:
            empty = _to_py(res) == ((), (), ())
        except PlanError:
            empty = False
        if not match:
            ctx.oblige(nm + ".gives_empty_plan.no_sub_sizes_can_match", empty)
        else:
            ctx.oblige(nm + ".gives_empty_plan.sub_sizes_differ_from_following_entries", z3.Implies(z3.Not(lit), z3.BoolVal(empty)))
            ctx.oblige(nm + ".gives_empty_plan.sub_sizes_equal_following_entries", z3.Implies(lit, z3.BoolVal(empty)))

    return Task(f"C07.calc_reshape_args.n{n}.{pat}.identity", ["C07"], [Q], body, bounded_rank=f"shape with {n} axes, fused-axis pattern {pat}; every size symbolic", timeout_ms=20000)


def tasks():
    out = []
    for n in range(0, MAX_N + 1 + (1 if thorough() else 0)):
        out += _recipe_tasks(n)
    for n in ((6, 7, 8) if thorough() else (7,)):
        out += _recipe_tasks(n, small_groups_only=True)
    for n in range(0, 4 + (1 if thorough() else 0)):
        out += _expand_tasks(n)
    for n in range(0, 4):
        for pattern in itertools.product((False, True), repeat=n):
            if sum(pattern) <= 2:
                out.append(_identity_task(n, pattern))
    return out
