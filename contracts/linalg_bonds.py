"""Sidecar contracts for the key-level / structural part of symmray.linalg (C11, C01):
qr, svd, eigh, solve on abelian matrices -- which blocks the factors have, how the new
bond index is built (one charge per input block, sizes from the factor shapes, opposite
directions on the two factors), total charges, and the charge arithmetic of `solve`.
The numerical content (orthonormality, reconstruction) is LAPACK: bounded tier.

Matrices have sectors (c0, c1) of integer charges (scalar symmetries Z2, Z4, U1; the pair
symmetries only differ in the charge type).  A-numpy (LAPACK shapes): for a block b of
shape (m, n): qr -> q:(m,k), r:(k,n);  svd -> u:(m,k), s:(k,), vh:(k,n)  with k = min(m,n);
eigh of (n,n) -> w:(n,), v:(n,n);  solve(a:(n,n), b:(n,)) -> (n,).
"""

import z3

from pyvc.builtins_model import LoopSpec
from pyvc.core import SV, PyRaise, SymDict, SymObj, TBool, TInt, TOpaque, Unsupported
from pyvc.interp import BuiltinVal, I
from pyvc.task import Task, check_call

from .util import MOD, TUP2, norm, ok_scalar, sym_obj, tuple_type

BLK = TOpaque("MBlock")
VBLK = TOpaque("VBlock")
Qf = z3.Function("lapack_q", BLK.sort(), BLK.sort())
Rf = z3.Function("lapack_r", BLK.sort(), BLK.sort())
Uf = z3.Function("lapack_u", BLK.sort(), BLK.sort())
Sf = z3.Function("lapack_s", BLK.sort(), VBLK.sort())
Vf = z3.Function("lapack_vh", BLK.sort(), BLK.sort())
EWf = z3.Function("lapack_eigvals", BLK.sort(), VBLK.sort())
EVf = z3.Function("lapack_eigvecs", BLK.sort(), BLK.sort())
rows = z3.Function("rows", BLK.sort(), z3.IntSort())
cols = z3.Function("cols", BLK.sort(), z3.IntSort())
SYMS1 = ("Z2", "U1", "Z4")


def mkkey(a, b):
    return TUP2.make(a, b)


def k0(t):
    return TUP2.get(t, "f0")


def k1(t):
    return TUP2.get(t, "f1")


def shape_axioms():
    b = z3.Const("b!sh", BLK.sort())
    mn = z3.If(rows(b) <= cols(b), rows(b), cols(b))
    return [
        z3.ForAll([b], z3.And(rows(b) >= 1, cols(b) >= 1), patterns=[rows(b)]),
        z3.ForAll([b], z3.And(rows(Qf(b)) == rows(b), cols(Qf(b)) == mn, rows(Rf(b)) == mn, cols(Rf(b)) == cols(b)), patterns=[Qf(b)]),
        z3.ForAll([b], z3.And(rows(Rf(b)) == mn, cols(Rf(b)) == cols(b)), patterns=[Rf(b)]),
        z3.ForAll([b], z3.And(rows(Uf(b)) == rows(b), cols(Uf(b)) == mn), patterns=[Uf(b)]),
        z3.ForAll([b], z3.And(rows(Vf(b)) == mn, cols(Vf(b)) == cols(b)), patterns=[Vf(b)]),
    ]


def mk_index(it, name, dual=None):
    cls = it.get_class("abelian_core", "BlockIndex")
    ix = SymObj(cls, tag=name)
    ix.fields["_chargemap"] = SymDict(
        z3.Const(name + "_cm_has", z3.ArraySort(z3.IntSort(), z3.BoolSort())),
        z3.Const(name + "_cm_val", z3.ArraySort(z3.IntSort(), z3.IntSort())),
        TInt,
        TInt,
        name + "_cm",
    )
    ix.fields["_dual"] = SV(it.ctx.fresh(name + "_dual", TBool), TBool) if dual is None else dual
    ix.fields["_subinfo"] = None
    ix.fields["_hashkey"] = None
    return ix


def mk_matrix(it, sym, name="x"):
    ctx = it.ctx
    cls = it.get_class("abelian_core", "AbelianArray")
    x = SymObj(cls, tag=name)
    bl = SymDict(
        z3.Const(name + "_has", z3.ArraySort(TUP2.sort(), z3.BoolSort())),
        z3.Const(name + "_val", z3.ArraySort(TUP2.sort(), BLK.sort())),
        TUP2,
        BLK,
        name + "_blocks",
    )
    i0, i1 = mk_index(it, name + "_i0"), mk_index(it, name + "_i1")
    x.fields.update({"_blocks": bl, "_indices": (i0, i1), "_symmetry": sym_obj(it, sym)})
    c = ctx.fresh(name + "_charge", TInt)
    ctx.assume(ok_scalar(sym, c))
    x.fields["_charge"] = SV(c, TInt)
    # Valid(x): stored sectors use available charges, block shapes match the tables, charge conserved
    s = z3.Const("s!valid", TUP2.sort())
    d0, d1 = i0.fields["_dual"].t, i1.fields["_dual"].t
    sg = lambda d, v: z3.If(d, -v, v)
    ctx.assume(
        z3.ForAll(
            [s],
            z3.Implies(
                z3.Select(bl.has, s),
                z3.And(
                    ok_scalar(sym, k0(s)),
                    ok_scalar(sym, k1(s)),
                    z3.Select(i0.fields["_chargemap"].has, k0(s)),
                    z3.Select(i1.fields["_chargemap"].has, k1(s)),
                    rows(z3.Select(bl.val, s)) == z3.Select(i0.fields["_chargemap"].val, k0(s)),
                    cols(z3.Select(bl.val, s)) == z3.Select(i1.fields["_chargemap"].val, k1(s)),
                    norm(sym, sg(d0, k0(s)) + sg(d1, k1(s))) == c,
                ),
            ),
        )
    )
    return x, bl, i0, i1, c


def install(it):
    def index_ctor(it_, a, k):
        cm = a[0] if a else k.get("chargemap")
        dual = a[1] if len(a) > 1 else k.get("dual", False)
        if not isinstance(cm, SymDict):
            raise Unsupported("BlockIndex summary expects a symbolic chargemap")
        cls = it_.get_class("abelian_core", "BlockIndex")
        ix = SymObj(cls, tag=it_.ctx.fresh_name("bond"))
        # dict(sorted(chargemap.items())): same content, sorted order (order is abstracted in the model)
        ix.fields["_chargemap"] = SymDict(cm.has, cm.val, cm.kty, cm.vty, "bond_cm")
        t = it_.truth(dual)
        ix.fields["_dual"] = SV(t, TBool) if not isinstance(t, bool) else t
        ix.fields["_subinfo"] = k.get("subinfo", a[2] if len(a) > 2 else None)
        ix.fields["_hashkey"] = None
        return ix

    it.summaries["abelian_core.BlockIndex"] = index_ctor
    it.externals["ar.shape"] = lambda it_, a, k: (SV(rows(a[0].t), TInt), SV(cols(a[0].t), TInt))
    it.summaries["block_core.BlockBase.backend"] = lambda it_, a, k: "numpy"
    it.debug_flag = False


def dual_term(ix):
    d = ix.fields["_dual"]
    return d.t if isinstance(d, SV) else z3.BoolVal(bool(d))


def unique_by_column(bl):
    """2-D charge conservation: a stored sector is determined by its column charge"""
    s, t = z3.Const("s!u", TUP2.sort()), z3.Const("t!u", TUP2.sort())
    return z3.ForAll([s, t], z3.Implies(z3.And(z3.Select(bl.has, s), z3.Select(bl.has, t), k1(s) == k1(t)), s == t))


def _decomp_task(sym, which):
    """which in {"qr", "svd"}"""
    Q = f"linalg.{which}"

    def body(it):
        install(it)
        ctx = it.ctx
        x, bl, i0, i1, c = mk_matrix(it, sym)
        X0 = (bl.has, bl.val)
        LEFT, RIGHT = (Qf, Rf) if which == "qr" else (Uf, Vf)
        if which == "qr":
            it.summaries["linalg._get_qr_fn"] = lambda it_, a, k: BuiltinVal("qr", lambda i2, a2, k2: (SV(Qf(a2[0].t), BLK), SV(Rf(a2[0].t), BLK)))
        else:
            it.summaries["linalg.get_numpy_svd_with_fallback"] = lambda it_, a, k: BuiltinVal("svd", lambda i2, a2, k2: (SV(Uf(a2[0].t), BLK), SV(Sf(a2[0].t), VBLK), SV(Vf(a2[0].t), BLK)))
            it.summaries["block_core.BlockVector"] = lambda it_, a, k: SymObj(it_.get_class("block_core", "BlockVector"), {"_blocks": a[0]}, tag="s")

        def view(d, dflt):
            if isinstance(d, dict):
                assert not d
                return (lambda q: z3.BoolVal(False)), (lambda q: dflt)
            return (lambda q: z3.Select(d.has, q)), (lambda q: z3.Select(d.val, q))

        left_name, right_name = ("q_blocks", "r_blocks") if which == "qr" else ("u_blocks", "v_blocks")

        def inv(it_, env, g):
            vis = g["vis"]
            lh, lv = view(env.vars[left_name], z3.Const("dfl", BLK.sort()))
            rh, rv = view(env.vars[right_name], z3.Const("dfr", BLK.sort()))
            ch, cv = view(env.vars["new_chargemap"], z3.IntVal(0))
            s, cc = z3.Const("s!inv", TUP2.sort()), z3.Int("c!inv")
            out = [
                ("left_blocks_of_visited", z3.ForAll([s], z3.And(lh(s) == z3.Select(vis, s), z3.Implies(lh(s), lv(s) == LEFT(z3.Select(X0[1], s)))))),
                ("right_blocks_keyed_by_column_charge_twice", z3.ForAll([s], rh(s) == z3.And(k0(s) == k1(s), z3.Exists([cc], z3.And(z3.Select(vis, mkkey(cc, k1(s))), z3.Select(X0[0], mkkey(cc, k1(s)))))))),
                ("right_block_value", z3.ForAll([s], z3.Implies(z3.Select(vis, s), z3.And(rh(mkkey(k1(s), k1(s))), rv(mkkey(k1(s), k1(s))) == RIGHT(z3.Select(X0[1], s)))))),
                ("bond_charges_are_visited_column_charges", z3.ForAll([cc], ch(cc) == z3.Exists([s], z3.And(z3.Select(vis, s), k1(s) == cc)))),
                ("bond_size_is_left_factor_columns", z3.ForAll([s], z3.Implies(z3.Select(vis, s), cv(k1(s)) == cols(LEFT(z3.Select(X0[1], s)))))),
            ]
            if which == "svd":
                sh, sval = view(env.vars["s_store"], z3.Const("dfs", VBLK.sort()))
                out.append(("singular_values_keyed_by_column_charge", z3.ForAll([s], z3.Implies(z3.Select(vis, s), z3.And(sh(k1(s)), sval(k1(s)) == Sf(z3.Select(X0[1], s)))))))
                out.append(("singular_value_keys_are_column_charges", z3.ForAll([cc], sh(cc) == z3.Exists([s], z3.And(z3.Select(vis, s), k1(s) == cc)))))
            return out

        carried = {left_name: ("dict", TUP2, BLK), right_name: ("dict", TUP2, BLK), "new_chargemap": ("dict", TInt, TInt)}
        if which == "svd":
            carried["s_store"] = ("dict", TInt, VBLK)
        it.loop_specs[(Q, 0)] = LoopSpec(carried=carried, invariant=inv)
        ctx.assume(unique_by_column(bl))
        fn = it.module_lookup("linalg", which)
        while hasattr(fn, "node") is False:
            break

        def post(r):
            n = 2 if which == "qr" else 3
            if not (isinstance(r, tuple) and len(r) == n):
                return [("returns_factors", False)]
            left, right = r[0], r[-1]
            out = []
            lb, rb = left.fields["_blocks"], right.fields["_blocks"]
            s, cc = z3.Const("s!post", TUP2.sort()), z3.Int("c!post")
            li, ri = left.fields["_indices"], right.fields["_indices"]
            ok = isinstance(li, tuple) and isinstance(ri, tuple) and len(li) == 2 and len(ri) == 2
            out.append(("factors_are_matrices", ok))
            if not ok:
                return out
            bond_l, bond_r = li[1], ri[0]
            cm_l, cm_r = bond_l.fields["_chargemap"], bond_r.fields["_chargemap"]
            out += [
                ("left_factor_has_one_block_per_input_block", z3.ForAll([s], z3.And(z3.Select(lb.has, s) == z3.Select(X0[0], s), z3.Implies(z3.Select(X0[0], s), z3.Select(lb.val, s) == LEFT(z3.Select(X0[1], s)))))),
                ("right_factor_blocks_are_diagonal_in_bond_charge", z3.ForAll([s], z3.Implies(z3.Select(rb.has, s), k0(s) == k1(s)))),
                ("right_factor_block_per_input_block", z3.ForAll([s], z3.Implies(z3.Select(X0[0], s), z3.And(z3.Select(rb.has, mkkey(k1(s), k1(s))), z3.Select(rb.val, mkkey(k1(s), k1(s))) == RIGHT(z3.Select(X0[1], s)))))),
                ("right_factor_no_extra_blocks", z3.ForAll([s], z3.Implies(z3.Select(rb.has, s), z3.Exists([cc], z3.Select(X0[0], mkkey(cc, k1(s))))))),
                ("left_keeps_row_index", li[0] is i0),
                ("right_keeps_column_index", ri[1] is i1),
                ("bond_has_one_charge_per_input_block", z3.ForAll([cc], z3.Select(cm_l.has, cc) == z3.Exists([s], z3.And(z3.Select(X0[0], s), k1(s) == cc)))),
                ("bond_tables_equal_on_both_factors", z3.ForAll([cc], z3.And(z3.Select(cm_l.has, cc) == z3.Select(cm_r.has, cc), z3.Implies(z3.Select(cm_l.has, cc), z3.Select(cm_l.val, cc) == z3.Select(cm_r.val, cc))))),
                ("bond_directions_opposite", dual_term(bond_l) != dual_term(bond_r)),
                ("bond_direction_on_left_factor_is_that_of_the_column_index", dual_term(bond_l) == dual_term(i1)),
                # Valid: block shapes match the new tables
                ("left_block_columns_match_bond_size", z3.ForAll([s], z3.Implies(z3.Select(X0[0], s), cols(z3.Select(lb.val, s)) == z3.Select(cm_l.val, k1(s))))),
                ("left_block_rows_match_row_index", z3.ForAll([s], z3.Implies(z3.Select(X0[0], s), rows(z3.Select(lb.val, s)) == z3.Select(i0.fields["_chargemap"].val, k0(s))))),
                ("right_block_rows_match_bond_size", z3.ForAll([s], z3.Implies(z3.Select(X0[0], s), rows(z3.Select(rb.val, mkkey(k1(s), k1(s)))) == z3.Select(cm_r.val, k1(s))))),
                ("right_block_columns_match_column_index", z3.ForAll([s], z3.Implies(z3.Select(X0[0], s), cols(z3.Select(rb.val, mkkey(k1(s), k1(s)))) == z3.Select(i1.fields["_chargemap"].val, k1(s))))),
                ("left_charge_is_input_charge", left.fields["_charge"].t == c),
                ("right_charge_is_identity", I(right.fields["_charge"]) == 0),
                # charge conservation of the right factor: sector (c, c) on (opposite of column direction, column direction)
                ("right_sectors_conserve_identity_charge", z3.ForAll([cc], z3.Implies(ok_scalar(sym, cc), norm(sym, z3.If(dual_term(bond_r), -cc, cc) + z3.If(dual_term(i1), -cc, cc)) == 0))),
                ("left_sectors_conserve_input_charge", z3.ForAll([s], z3.Implies(z3.Select(lb.has, s), norm(sym, z3.If(dual_term(i0), -k0(s), k0(s)) + z3.If(dual_term(bond_l), -k1(s), k1(s))) == c))),
                ("same_class_and_symmetry", left.cls is x.cls and right.cls is x.cls and right.fields["_symmetry"].cls is x.fields["_symmetry"].cls),
            ]
            if which == "svd":
                sv_ = r[1].fields["_blocks"]
                out += [
                    ("singular_values_one_vector_block_per_input_block", z3.ForAll([s], z3.Implies(z3.Select(X0[0], s), z3.And(z3.Select(sv_.has, k1(s)), z3.Select(sv_.val, k1(s)) == Sf(z3.Select(X0[1], s)))))),
                    ("singular_value_keys_are_the_bond_charges", z3.ForAll([cc], z3.Select(sv_.has, cc) == z3.Select(cm_l.has, cc))),
                ]
            # frame
            out += [("operand_blocks_untouched", z3.And(bl.has == X0[0], bl.val == X0[1])), ("operand_indices_untouched", x.fields["_indices"][0] is i0 and x.fields["_indices"][1] is i1)]
            return out

        check_call(it, f"linalg.{which}[{sym}]", fn, [x], post=post)

    return Task(
        f"C11.{which}.bond_structure.{sym}",
        ["C11", "C01"],
        [Q, "abelian_core.BlockIndex.conj", "abelian_core.BlockIndex.copy_with", "abelian_core.AbelianArray.copy_with", "abelian_core.AbelianArray.__init__"],
        body,
        axioms=shape_axioms,
        assumes=[
            "A-numpy: LAPACK factor shapes (k = min(m, n)); the numerical meaning of the factors is the bounded tier's (C11/C12)",
            "Valid(x) incl. 2-D charge conservation (a stored sector is determined by its column charge)",
            "BlockIndex(chargemap, dual) holds a sorted copy of the given table (order abstracted)",
            "singledispatch resolves to the abelian implementation for AbelianArray",
        ],
        timeout_ms=40000,
    )


TUP1 = tuple_type([TInt])
SOLf = z3.Function("lapack_solve", BLK.sort(), VBLK.sort(), VBLK.sort())


def _eigh_task(sym):
    Q = "linalg.eigh"

    def body(it):
        install(it)
        ctx = it.ctx
        x, bl, i0, i1, c = mk_matrix(it, sym)
        X0 = (bl.has, bl.val)
        it.externals["ar.get_lib_fn"] = lambda it_, a, k: BuiltinVal("eigh", lambda i2, a2, k2: (SV(EWf(a2[0].t), VBLK), SV(EVf(a2[0].t), BLK)))
        it.summaries["block_core.BlockVector"] = lambda it_, a, k: SymObj(it_.get_class("block_core", "BlockVector"), {"_blocks": a[0]}, tag="w")
        ctx.assume(unique_by_column(bl))

        def view(d, dflt):
            if isinstance(d, dict):
                assert not d
                return (lambda q: z3.BoolVal(False)), (lambda q: dflt)
            return (lambda q: z3.Select(d.has, q)), (lambda q: z3.Select(d.val, q))

        def inv(it_, env, g):
            vis = g["vis"]
            wh, wv = view(env.vars["eval_blocks"], z3.Const("dfw", VBLK.sort()))
            vh, vv = view(env.vars["evec_blocks"], z3.Const("dfv", BLK.sort()))
            s, cc = z3.Const("s!inv", TUP2.sort()), z3.Int("c!inv")
            return [
                ("eigenvector_blocks_of_visited", z3.ForAll([s], z3.And(vh(s) == z3.Select(vis, s), z3.Implies(vh(s), vv(s) == EVf(z3.Select(X0[1], s)))))),
                ("eigenvalue_keys_are_visited_column_charges", z3.ForAll([cc], wh(cc) == z3.Exists([s], z3.And(z3.Select(vis, s), k1(s) == cc)))),
                ("eigenvalues_of_visited", z3.ForAll([s], z3.Implies(z3.Select(vis, s), wv(k1(s)) == EWf(z3.Select(X0[1], s))))),
            ]

        it.loop_specs[(Q, 0)] = LoopSpec(carried={"eval_blocks": ("dict", TInt, VBLK), "evec_blocks": ("dict", TUP2, BLK)}, invariant=inv)
        fn = it.module_lookup("linalg", "eigh")

        def post(r):
            if not (isinstance(r, tuple) and len(r) == 2 and all(isinstance(v, SymObj) for v in r)):
                return [("returns_eigenvalues_and_eigenvectors", False)]
            w, v = r
            wb, vb = w.fields["_blocks"], v.fields["_blocks"]
            s, cc = z3.Const("s!post", TUP2.sort()), z3.Int("c!post")
            return [
                ("eigenvectors_have_one_block_per_input_block", z3.ForAll([s], z3.And(z3.Select(vb.has, s) == z3.Select(X0[0], s), z3.Implies(z3.Select(X0[0], s), z3.Select(vb.val, s) == EVf(z3.Select(X0[1], s)))))),
                ("eigenvalue_blocks_keyed_by_column_charge", z3.ForAll([s], z3.Implies(z3.Select(X0[0], s), z3.And(z3.Select(wb.has, k1(s)), z3.Select(wb.val, k1(s)) == EWf(z3.Select(X0[1], s)))))),
                ("no_other_eigenvalue_blocks", z3.ForAll([cc], z3.Implies(z3.Select(wb.has, cc), z3.Exists([s], z3.And(z3.Select(X0[0], s), k1(s) == cc))))),
                ("eigenvectors_keep_indices_charge_class", v.fields["_indices"] == (i0, i1) and v.fields["_charge"].t == c and v.cls is x.cls),
                ("eigenvector_blocks_not_shared_with_operand", vb is not bl),
                ("result_is_new_array", v is not x),
                ("operand_blocks_untouched", z3.And(bl.has == X0[0], bl.val == X0[1])),
                ("operand_indices_untouched", x.fields["_indices"] == (i0, i1)),
            ]

        check_call(it, f"linalg.eigh[{sym}]", fn, [x], post=post, raises={"ValueError": lambda it_: c != 0})

    return Task(
        f"C11.eigh.block_structure.{sym}",
        ["C11", "C12", "C01", "C14"],
        [Q, "abelian_core.AbelianArray.copy_with"],
        body,
        axioms=shape_axioms,
        assumes=["A-numpy: LAPACK eigh is a pure function of one block", "Valid(x) incl. 2-D charge conservation", "singledispatch resolves to the abelian implementation for AbelianArray"],
        timeout_ms=40000,
    )


def _solve_task(sym):
    Q = "linalg.solve"

    def body(it):
        install(it)
        ctx = it.ctx
        a, abl, i0, i1, ca = mk_matrix(it, sym, "a")
        A0 = (abl.has, abl.val)
        cls = it.get_class("abelian_core", "AbelianArray")
        b = SymObj(cls, tag="b")
        bbl = SymDict(z3.Const("b_has", z3.ArraySort(TUP1.sort(), z3.BoolSort())), z3.Const("b_val", z3.ArraySort(TUP1.sort(), VBLK.sort())), TUP1, VBLK, "b_blocks")
        B0 = (bbl.has, bbl.val)
        bi = mk_index(it, "b_i0")
        cb = ctx.fresh("b_charge", TInt)
        ctx.assume(ok_scalar(sym, cb))
        b.fields.update({"_blocks": bbl, "_indices": (bi,), "_symmetry": a.fields["_symmetry"], "_charge": SV(cb, TInt)})
        it.externals["ar.get_lib_fn"] = lambda it_, aa, k: BuiltinVal("solve", lambda i2, a2, k2: SV(SOLf(a2[0].t, a2[1].t), VBLK))
        ctx.assume(unique_by_column(abl))
        # 2-D conservation also makes the row charge determine the sector
        s_, t_ = z3.Const("s!ur", TUP2.sort()), z3.Const("t!ur", TUP2.sort())
        ctx.assume(z3.ForAll([s_, t_], z3.Implies(z3.And(z3.Select(abl.has, s_), z3.Select(abl.has, t_), k0(s_) == k0(t_)), s_ == t_)))
        mk1 = lambda v: TUP1.make(v)  # noqa: E731
        g0 = lambda t: TUP1.get(t, "f0")  # noqa: E731

        def view(d, dflt):
            if isinstance(d, dict):
                assert not d
                return (lambda q: z3.BoolVal(False)), (lambda q: dflt)
            return (lambda q: z3.Select(d.has, q)), (lambda q: z3.Select(d.val, q))

        def inv(it_, env, g):
            vis = g["vis"]
            xh, xv = view(env.vars["x_blocks"], z3.Const("dfx", VBLK.sort()))
            s, u = z3.Const("s!inv", TUP2.sort()), z3.Const("u!inv", TUP1.sort())
            return [
                ("solution_keys", z3.ForAll([u], xh(u) == z3.Exists([s], z3.And(z3.Select(vis, s), z3.Select(A0[0], s), k1(s) == g0(u), z3.Select(B0[0], mk1(k0(s))))))),
                ("solution_values", z3.ForAll([s], z3.Implies(z3.And(z3.Select(vis, s), z3.Select(B0[0], mk1(k0(s)))), xv(mk1(k1(s))) == SOLf(z3.Select(A0[1], s), z3.Select(B0[1], mk1(k0(s))))))),
            ]

        it.loop_specs[(Q, 0)] = LoopSpec(carried={"x_blocks": ("dict", TUP1, VBLK)}, invariant=inv)
        fn = it.module_lookup("linalg", "solve")

        def post(r):
            if not isinstance(r, SymObj):
                return [("returns_an_array", False)]
            xb = r.fields["_blocks"]
            s, u = z3.Const("s!post", TUP2.sort()), z3.Const("u!post", TUP1.sort())
            inds = r.fields["_indices"]
            ok = isinstance(inds, tuple) and len(inds) == 1 and isinstance(inds[0], SymObj)
            out = [("solution_is_one_dimensional", ok)]
            if not ok:
                return out
            xi = inds[0]
            cm, cm1 = xi.fields["_chargemap"], i1.fields["_chargemap"]
            out += [
                ("solution_block_for_every_matrix_block_with_a_right_hand_side", z3.ForAll([s], z3.Implies(z3.And(z3.Select(A0[0], s), z3.Select(B0[0], mk1(k0(s)))), z3.And(z3.Select(xb.has, mk1(k1(s))), z3.Select(xb.val, mk1(k1(s))) == SOLf(z3.Select(A0[1], s), z3.Select(B0[1], mk1(k0(s)))))))),
                ("no_other_solution_blocks", z3.ForAll([u], z3.Implies(z3.Select(xb.has, u), z3.Exists([s], z3.And(z3.Select(A0[0], s), k1(s) == g0(u), z3.Select(B0[0], mk1(k0(s)))))))),
                ("solution_index_is_the_conjugated_column_index", z3.And(dual_term(xi) != dual_term(i1), cm.has == cm1.has, cm.val == cm1.val)),
                ("solution_index_is_a_new_object", xi is not i1),
                # c_x = c_b - c_a  (group arithmetic)
                ("solution_charge_is_rhs_charge_minus_matrix_charge", I(r.fields["_charge"]) == norm(sym, cb - ca)),
                ("result_is_new_array", r is not b and r is not a),
                ("solution_blocks_not_shared", xb is not bbl),
                ("matrix_untouched", z3.And(abl.has == A0[0], abl.val == A0[1]) if a.fields["_blocks"] is abl else False),
                ("right_hand_side_untouched", z3.And(bbl.has == B0[0], bbl.val == B0[1]) if b.fields["_blocks"] is bbl else False),
                ("operand_indices_untouched", a.fields["_indices"] == (i0, i1) and b.fields["_indices"] == (bi,)),
            ]
            return out

        check_call(it, f"linalg.solve[{sym}]", fn, [a, b], post=post)

    return Task(
        f"C11.solve.block_structure.{sym}",
        ["C11", "C12", "C01", "C14"],
        [Q, "abelian_core.AbelianArray.copy_with", "abelian_core.BlockIndex.conj", "abelian_core.BlockIndex.copy_with"],
        body,
        axioms=shape_axioms,
        assumes=["A-numpy: LAPACK solve is a pure function of (block, right hand side)", "Valid(a) incl. 2-D charge conservation (row charge and column charge each determine the sector)", "singledispatch resolves to the abelian implementation"],
        timeout_ms=40000,
    )


def tasks():
    out = []
    for sym in SYMS1:
        for w in ("qr", "svd"):
            out.append(_decomp_task(sym, w))
        out.append(_eigh_task(sym))
        out.append(_solve_task(sym))
    return out
