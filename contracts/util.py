"""Helpers shared by the sidecar contract modules."""

import z3

from pyvc.builtins_model import SUM_fn, fold_axioms, tuple_type
from pyvc.core import SV, SymSeq, TBool, TInt, TReal
from pyvc.interp import I, StarSeq

SYMS = ("Z2", "Z4", "U1", "Z2Z2", "U1U1")
PAIR = ("Z2Z2", "U1U1")
MOD = {"Z2": 2, "Z4": 4, "U1": None, "Z2Z2": 2, "U1U1": None}
TUP2 = tuple_type([TInt, TInt])


def sym_obj(it, name):
    return it.instantiate(it.get_class("symmetries", name), [], {})


def norm(sym, x):
    m = MOD[sym]
    return x if m is None else x % m


def ok_scalar(sym, x):
    m = MOD[sym]
    if m is None:
        return z3.BoolVal(True)
    return z3.And(x >= 0, x < m)


def fresh_charge(it, sym, name):
    """symbolic valid charge (python-level value) plus its validity assumption"""
    c = it.ctx
    if sym in PAIR:
        a, b = c.fresh(name + "0", TInt), c.fresh(name + "1", TInt)
        c.assume(z3.And(ok_scalar(sym, a), ok_scalar(sym, b)))
        return (SV(a, TInt), SV(b, TInt))
    a = c.fresh(name, TInt)
    c.assume(ok_scalar(sym, a))
    return SV(a, TInt)


def comps(sym, v):
    """components (z3 ints) of a charge value"""
    if sym in PAIR:
        return [I(v[0]), I(v[1])]
    return [I(v)]


def charge_eq(sym, v, comps_expected):
    cs = comps(sym, v)
    return z3.And(*[a == b for a, b in zip(cs, comps_expected)])


def charge_ok(sym, v):
    return z3.And(*[ok_scalar(sym, x) for x in comps(sym, v)])


def is_charge_shape(sym, v):
    """python-level shape check of a returned charge"""
    if sym in PAIR:
        return isinstance(v, tuple) and len(v) == 2
    return isinstance(v, (int, SV)) and not isinstance(v, bool)


def fresh_seq(it, name, ety, nonneg=True):
    n = it.ctx.fresh(name + "_n", TInt)
    it.ctx.assume(n >= 0)
    arr = z3.Const(it.ctx.fresh_name(name), z3.ArraySort(z3.IntSort(), ety.sort()))
    return SymSeq(n, arr, ety, "tuple")


def forall_idx(it, n, body, name="q"):
    j = z3.Int(it.ctx.fresh_name(name))
    return z3.ForAll([j], z3.Implies(z3.And(j >= 0, j < n), body(j)))
