"""Sidecar contract for the truncation threshold of linalg.svd_truncated (C13), positive cutoff.

The real function is interpreted from its first statement up to and including the list comprehension
that counts, per charge sector, how many singular values survive (`sub_max_bonds = [...]`); the
slicing loop and the absorption after it are NOT interpreted here (bounded tier C13).  What is
dropped is stated in `assumes`.

Model (A-numpy, each recorded as an assumption):
  * svd(x) returns a vector of singular values whose sorted concatenation is  a[0] <= ... <= a[N-1],
    a[i] >= 0, N >= 1, N arbitrary;
  * sort / cumsum / count_nonzero / ** / >= / indexing of 1-D arrays have their mathematical meaning;
    cumsum is the ghost fold CUM (CUM(0) = 0, CUM(k+1) = CUM(k) + x[k]); that a fold of non-negative
    terms is monotone, and that a monotone boolean sequence has a boundary index (so counting its true
    entries is N - boundary) are lemma instances: hypothesis obliged, conclusion assumed;
  * python indexing semantics: a negative index counts from the end and  -0 == 0.

Specification, from the property statement: with W(k) the weight (sum of a[i]**p) of the k smallest
values, the cutoff rule permits discarding the longest prefix of the ascending order whose weight stays
below the cutoff (equal values are kept or discarded together); the bond limit keeps at most max_bond
of the largest values.  The threshold `abs_cutoff` finally used must keep exactly the values that both
permit.  The obligations are split by case so that each known defect is one named obligation:

  *.within_total_weight.no_tie_at_bond_limit   proved
  *.within_total_weight.tie_at_bond_limit      refuted on the pinned tree: known finding F11
  *.cutoff_above_total_weight                  refuted on the pinned tree: known finding F8
"""

import ast as _ast

import z3

from pyvc.core import SV, KeyIter, PathEnd, SymDict, SymObj, SymSeq, TInt, TOpaque, TReal, Unsupported  # noqa: F401
from pyvc.interp import BuiltinVal
from pyvc.task import Task, check_call

VBLK = TOpaque("SingularValuesOfSector")
Q = "linalg.svd_truncated"

CUM = z3.Function("cumsum_fold", z3.IntSort(), z3.RealSort())
# products of two unknowns are abstracted by the order properties of real multiplication that the argument
# needs (all true of *): keeps every query linear and the verdicts independent of solver heuristics
MUL = z3.Function("real_mul", z3.RealSort(), z3.RealSort(), z3.RealSort())
SQ = z3.Function("real_square", z3.RealSort(), z3.RealSort())


def arith_axioms():
    x, y, z = z3.Reals("x!ax y!ax z!ax")
    return [
        z3.ForAll([x, y], MUL(x, y) == MUL(y, x)),
        z3.ForAll([x, y, z], z3.Implies(z3.And(x <= y, z >= 0), MUL(x, z) <= MUL(y, z))),
        z3.ForAll([x, y], z3.Implies(z3.And(x >= 0, y >= 0), MUL(x, y) >= 0)),
        z3.ForAll([x], SQ(x) >= 0),
        z3.ForAll([x, y], z3.Implies(z3.And(0 <= x, x <= y), SQ(x) <= SQ(y))),
    ]
CNTGE = z3.Function("count_values_at_least", VBLK.sort(), z3.RealSort(), z3.IntSort())


def nd(kind, length, arr, **meta):
    o = SymObj(None, tag="ndarray_" + kind)
    o.fields.update({"$kind": kind, "$len": length, "$arr": arr, "$meta": meta})

    def getitem(it, obj, key):
        from pyvc.builtins_model import getitem as gi

        return gi(it, SymSeq(length, arr, TReal if kind == "real" else None), key)

    o.fields["$getitem"] = getitem
    return o


def is_nd(v, kind=None):
    return isinstance(v, SymObj) and "$kind" in v.fields and (kind is None or v.fields["$kind"] == kind)


class _Reached(Exception):
    def __init__(self, t, within):
        self.t, self.within = t, within


def exact_arith():
    x, y = z3.Reals("x!ex y!ex")
    return [z3.ForAll([x, y], MUL(x, y) == x * y), z3.ForAll([x], SQ(x) == x * x)]


def _task(mode, with_bond, monotone=False):
    def body(it):
        ctx = it.ctx
        N = ctx.fresh("n_singular_values", TInt)
        A = z3.Const("sorted_singular_values", z3.ArraySort(z3.IntSort(), z3.RealSort()))
        i, j, k = z3.Int("i!tr"), z3.Int("j!tr"), z3.Int("k!tr")
        ctx.assume(N >= 1)
        ctx.assume(z3.ForAll([i], z3.Implies(z3.And(0 <= i, i < N), A[i] >= 0)))
        ctx.assume(z3.ForAll([i], z3.Implies(z3.And(0 <= i, i + 1 < N), A[i] <= A[i + 1])))
        ctx.assume(z3.ForAll([i, j], z3.Implies(z3.And(0 <= i, i <= j, j < N), A[i] <= A[j])))  # consequence (transitivity), stated for the solver
        cutoff = ctx.fresh("cutoff", TReal)
        ctx.assume(cutoff > 0)
        mb = ctx.fresh("max_bond", TInt)
        if monotone:
            pass  # any bond limit, the same in both runs
        elif with_bond:
            ctx.assume(z3.And(0 < mb, mb < N))
        else:
            ctx.assume(z3.Or(mb <= 0, mb >= N))
        p = 2 if mode in (3, 4) else 1
        ctx.witness = {"hints": [N <= 6], "terms": {"n": N, "cutoff": cutoff, "max_bond": mb, "values_ascending": [A[q] for q in range(6)]}}

        def pw(x):
            return SQ(x) if p == 2 else x

        raw = SymObj(None, tag="s_dense_unsorted")
        sblocks = SymDict(z3.Const("s_has", z3.ArraySort(z3.IntSort(), z3.BoolSort())), z3.Const("s_val", z3.ArraySort(z3.IntSort(), VBLK.sort())), TInt, VBLK, "s_blocks")
        s = SymObj(None, tag="s")
        s.fields["blocks"] = sblocks
        s.fields["to_dense"] = BuiltinVal("to_dense", lambda it_, a, kw: raw)
        U, VH = SymObj(None, tag="U"), SymObj(None, tag="VH")
        x = SymObj(None, tag="x")
        x.fields["backend"] = "numpy"
        it.summaries["linalg.svd"] = lambda it_, a, kw: (U, s, VH)
        st = {"cum_of": None, "reached": False}

        def ar_do(it_, a, kw):
            name = a[0]
            if name == "sort":
                if a[1] is not raw:
                    raise Unsupported("sort of something else than s.to_dense()")
                return nd("real", N, A, sorted=True)
            if name == "cumsum":
                X = a[1]
                if not is_nd(X, "real") or st["cum_of"] is not None:
                    raise Unsupported("cumsum argument")
                xa = X.fields["$arr"]
                st["cum_of"] = xa
                ctx.assume(CUM(0) == 0)
                ctx.assume(z3.ForAll([k], z3.Implies(z3.And(0 <= k, k < N), CUM(k + 1) == CUM(k) + z3.Select(xa, k))))
                # lemma instance (fold of non-negative terms is monotone): hypothesis obliged, conclusion assumed
                ctx.oblige("svd_truncated.cutoff_core.cumulated_terms_are_non_negative", z3.ForAll([k], z3.Implies(z3.And(0 <= k, k < N), z3.Select(xa, k) >= 0)))
                ctx.assume(z3.ForAll([i, j], z3.Implies(z3.And(0 <= i, i <= j, j <= N), CUM(i) <= CUM(j))))
                ctx.oblige("svd_truncated.cutoff_core.weights_are_the_values_to_the_power_of_the_mode", z3.ForAll([k], z3.Implies(z3.And(0 <= k, k < N), z3.Select(xa, k) == pw(A[k]))))
                kk = z3.Int("kk!cum")
                return nd("real", N, z3.Lambda([kk], CUM(kk + 1)))
            if name == "count_nonzero":
                c = a[1]
                if not is_nd(c, "bool"):
                    raise Unsupported("count_nonzero argument")
                m = c.fields["$meta"]
                if m.get("sector") is not None:
                    f = CNTGE if m["op"] == "GtE" else z3.Function("count_values_" + m["op"], VBLK.sort(), z3.RealSort(), z3.IntSort())
                    return SV(f(m["sector"], m["thr"]), TInt)
                ca, n = c.fields["$arr"], c.fields["$len"]
                # lemma instance (a monotone boolean sequence has a boundary; its true entries are the ones from there on)
                ctx.oblige("svd_truncated.cutoff_core.counted_condition_is_monotone", z3.ForAll([i, j], z3.Implies(z3.And(0 <= i, i <= j, j < n, z3.Select(ca, i)), z3.Select(ca, j))))
                d = ctx.fresh("boundary", TInt)
                ctx.assume(z3.And(0 <= d, d <= n))
                ctx.assume(z3.ForAll([k], z3.Implies(z3.And(0 <= k, k < d), z3.Not(z3.Select(ca, k)))))
                ctx.assume(z3.ForAll([k], z3.Implies(z3.And(d <= k, k < n), z3.Select(ca, k))))
                return SV(n - d, TInt)
            if name == "sqrt":
                raise Unsupported("absorption is outside this contract")
            raise Unsupported(f"ar.do({name!r})")

        it.externals["ar.do"] = ar_do
        it.externals["ar.size"] = lambda it_, a, kw: SV(a[0].fields["$len"], TInt) if is_nd(a[0]) else (_ for _ in ()).throw(Unsupported("ar.size"))

        def binop_hook(it_, op, a, b):
            if is_nd(a, "real") and op is _ast.Pow and b == 2:
                arr = a.fields["$arr"]
                kk = z3.Int("kk!pow")
                return nd("real", a.fields["$len"], z3.Lambda([kk], SQ(z3.Select(arr, kk))))
            if is_nd(a, "real") and op is _ast.Pow and b == 1:
                return a
            return None

        it.binop_hook = binop_hook
        it.real_mul = MUL

        def compare_hook(it_, op, a, b):
            from pyvc.interp import R

            rel = {_ast.GtE: lambda u, v: u >= v, _ast.Gt: lambda u, v: u > v, _ast.LtE: lambda u, v: u <= v, _ast.Lt: lambda u, v: u < v}.get(op)
            if rel is not None and is_nd(a, "real") and isinstance(b, (SV, int, float)):
                arr = a.fields["$arr"]
                kk = z3.Int("kk!cmp")
                return nd("bool", a.fields["$len"], z3.Lambda([kk], rel(z3.Select(arr, kk), R(b))))
            if rel is not None and isinstance(a, SV) and a.ty == VBLK and isinstance(b, (SV, int, float)):
                return nd("bool", None, None, sector=a.t, thr=R(b), op=op.__name__)
            if is_nd(a) or is_nd(b) or (isinstance(a, SV) and a.ty == VBLK):
                raise Unsupported("comparison of a modelled array other than `values <rel> scalar`")
            return None

        it.compare_hook = compare_hook

        def comp_hook(it_, e, env, kind, it0):
            if not (isinstance(it0, KeyIter) and it0.has is sblocks.has and it0.mode == "values"):
                return None
            from pyvc.interp import Env, R

            st["reached"] = True
            t = R(env.lookup("abs_cutoff"))
            if monotone:
                within = z3.BoolVal(True)
                if mode >= 3:
                    L = st["cutoff"] if mode in (3, 5) else MUL(st["cutoff"], CUM(N))
                    within = CUM(N) >= L  # some prefix weight reaches the limit
                raise _Reached(t, within)
            # the per-sector count: number of that sector's values that are >= the final threshold
            ss = SV(ctx.fresh("sector_values", VBLK), VBLK)
            env3 = Env(env)
            it_.assign(e.generators[0].target, ss, env3)
            elt = it_.eval_expr(e.elt, env3)
            ctx.oblige("svd_truncated.cutoff_core.per_sector_count_is_number_of_values_at_least_threshold", isinstance(elt, SV) and elt.ty == TInt and elt.t == CNTGE(ss.t, t) and not e.generators[0].ifs)

            def kept(ix):
                return A[ix] >= t

            inb = z3.And(0 <= i, i < N)
            ctx.oblige("svd_truncated.cutoff_core.every_kept_value_is_at_least_every_discarded_one", z3.ForAll([i, j], z3.Implies(z3.And(0 <= i, i < N, 0 <= j, j < N, kept(i), z3.Not(kept(j))), A[i] >= A[j])))
            bond_ok = (lambda ix: ix >= N - mb) if with_bond else (lambda ix: z3.BoolVal(True))
            nm = f"svd_truncated.cutoff_core.mode{mode}.kept_are_exactly_those_permitted_by_cutoff_rule_and_bond_limit"
            if mode in (1, 2):
                thr = cutoff if mode == 1 else MUL(cutoff, A[N - 1])
                rule = lambda ix: A[ix] >= thr  # noqa: E731
                within = z3.BoolVal(True)
            else:
                if st["cum_of"] is None:
                    raise Unsupported("no cumulative sum was formed")
                L = cutoff if mode in (3, 5) else MUL(cutoff, CUM(N))
                # the specification's boundary: number of prefix weights below the limit (exists: W is monotone)
                ds = ctx.fresh("spec_boundary", TInt)
                ctx.assume(z3.And(0 <= ds, ds <= N))
                ctx.assume(z3.ForAll([k], z3.Implies(z3.And(0 <= k, k < ds), CUM(k + 1) < L)))
                ctx.assume(z3.ForAll([k], z3.Implies(z3.And(ds <= k, k < N), CUM(k + 1) >= L)))
                rule = lambda ix: z3.And(ds < N, A[ix] >= A[ds])  # noqa: E731
                within = ds < N
                ctx.oblige(
                    f"svd_truncated.cutoff_core.mode{mode}.cutoff_above_total_weight.nothing_is_kept",
                    z3.Implies(ds == N, z3.ForAll([i], z3.Implies(inb, z3.Not(kept(i))))),
                )
            claim = z3.ForAll([i], z3.Implies(inb, kept(i) == z3.And(rule(i), bond_ok(i))))
            if with_bond:
                tie = z3.And(A[N - mb - 1] == A[N - mb], rule(N - mb - 1))
                ctx.oblige(nm + ".within_total_weight.no_tie_at_bond_limit", z3.Implies(z3.And(within, z3.Not(tie)), claim))
                ctx.oblige(nm + ".within_total_weight.tie_at_bond_limit", z3.Implies(z3.And(within, tie), claim))
                # whatever is done about ties (finding F11): the kept set lies between "rule and bond limit" and
                # "rule and (bond limit or equal to the value at the limit)"
                ctx.oblige(
                    nm + ".within_total_weight.kept_set_between_bond_limit_and_its_ties",
                    z3.Implies(within, z3.ForAll([i], z3.Implies(inb, z3.And(z3.Implies(z3.And(rule(i), bond_ok(i)), kept(i)), z3.Implies(kept(i), z3.And(rule(i), z3.Or(bond_ok(i), A[i] == A[N - mb]))))))),
                )
                ctx.oblige(nm + ".at_most_max_bond_values_kept_unless_tie_at_limit", z3.Implies(z3.Not(z3.And(A[N - mb - 1] == A[N - mb])), z3.ForAll([i], z3.Implies(z3.And(inb, kept(i)), i >= N - mb))))
            else:
                ctx.oblige(nm + ".within_total_weight.no_bond_limit", z3.Implies(within, claim))
            raise PathEnd()

        it.comp_hook = comp_hook
        fn = it.module_lookup("linalg", "svd_truncated")
        if monotone:
            c2 = ctx.fresh("larger_cutoff", TReal)
            ctx.assume(c2 >= cutoff)
            got = []
            for c in (cutoff, c2):
                st["cum_of"], st["cutoff"] = None, c
                try:
                    check_call(it, f"svd_truncated[mode={mode}]", fn, [x], {"cutoff": SV(c, TReal), "cutoff_mode": mode, "max_bond": SV(mb, TInt), "absorb": None, "renorm": 0})
                    ctx.oblige(f"svd_truncated[mode={mode}].reaches_the_per_sector_count", False)
                    return
                except _Reached as r:
                    got.append(r)
            (r1, r2) = got
            ctx.oblige(
                f"svd_truncated.cutoff_core.mode{mode}.larger_cutoff_never_keeps_more.within_total_weight",
                z3.Implies(r2.within, z3.ForAll([i], z3.Implies(z3.And(0 <= i, i < N, A[i] >= r2.t), A[i] >= r1.t))),
            )
            return
        res, exc = check_call(it, f"svd_truncated[mode={mode}]", fn, [x], {"cutoff": SV(cutoff, TReal), "cutoff_mode": mode, "max_bond": SV(mb, TInt), "absorb": None, "renorm": 0})
        # the interpretation must have stopped at the per-sector count (else nothing was checked on this path)
        ctx.oblige(f"svd_truncated[mode={mode}].reaches_the_per_sector_count", False)

    return Task(
        f"C13.svd_truncated.cutoff_threshold.mode{mode}." + ("larger_cutoff_never_keeps_more" if monotone else "with_bond_limit" if with_bond else "no_bond_limit"),
        ["C13"],
        [Q],
        body,
        axioms=arith_axioms,
        refine_axioms=exact_arith,
        assumes=[
            "products of two unknown reals (cutoff * total weight, cutoff * largest value, value ** 2) are abstracted by uninterpreted functions with the order axioms of real multiplication (commutative, monotone for non-negative factors, squares non-negative and monotone on non-negative reals; machine-checked in Lean: contracts/lean/Fold.lean AX_mul_comm, AX_mul_mono, AX_mul_nonneg, AX_sq_nonneg, AX_sq_mono); a refutation found under the abstraction is re-checked with the exact product",
            "A-numpy: sort, cumsum (ghost fold), count_nonzero, **, >=, 1-D indexing have their mathematical meaning; reals instead of floats (A-float)",
            "lemma instances: a fold of non-negative terms is monotone; a monotone boolean sequence has a boundary index and its number of true entries is length - boundary (machine-checked in Lean: contracts/lean/Fold.lean LS_cum_mono, LB_boundary, LB_count)",
            "prefix of svd_truncated only: statements after `sub_max_bonds = [...]` (slicing of the factors, absorption) are not interpreted here (bounded tier C13)",
            "svd(x) abstracted: singular values non-negative, at least one",
        ],
        timeout_ms=60000,
    )


# ---------------------------------------------------------------------------------------------------
# second half of svd_truncated: removal of emptied sectors, slicing of the factors, bond tables


def _slicing_task(absorb=None):
    """svd_truncated(cutoff > 0) from the per-sector counts to the return: which sectors the three results
    keep, how the blocks are sliced, the new bond table on both factors, and which factor absorbs which
    power of the singular values -- for any number of sectors."""
    from pyvc.builtins_model import LoopSpec, tuple_type
    from pyvc.core import SymList, TBool

    from .linalg_bonds import BLK as MBLK
    from .linalg_bonds import TUP2, cols, dual_term, install, k0, k1, mk_index, mkkey, rows
    from .util import sym_obj

    sliceU = z3.Function("keep_first_columns", MBLK.sort(), z3.IntSort(), MBLK.sort())
    sliceV = z3.Function("keep_first_rows", MBLK.sort(), z3.IntSort(), MBLK.sort())
    sliceS = z3.Function("keep_first_values", VBLK.sort(), z3.IntSort(), VBLK.sort())
    vlen = z3.Function("number_of_values", VBLK.sort(), z3.IntSort())
    scale_cols = z3.Function("scale_columns_by", MBLK.sort(), VBLK.sort(), MBLK.sort())  # b * v.reshape((1, -1))
    scale_rows = z3.Function("scale_rows_by", MBLK.sort(), VBLK.sort(), MBLK.sort())  # b * v.reshape((-1, 1))
    sqrtv = z3.Function("elementwise_sqrt", VBLK.sort(), VBLK.sort())
    BC = TOpaque("BroadcastVector")
    as_row = z3.Function("as_row", VBLK.sort(), BC.sort())
    as_col = z3.Function("as_column", VBLK.sort(), BC.sort())
    Q2 = "linalg.svd_truncated"
    aname = {None: "None", -1: "left", 1: "right", 0: "both"}.get(absorb, str(absorb)) if not isinstance(absorb, str) else "str_" + absorb
    side = {-1: "left", "left": "left", 1: "right", "right": "right", 0: "both", "both": "both"}.get(absorb)

    def axioms():
        b, n, v, t = z3.Const("b!sl", MBLK.sort()), z3.Int("n!sl"), z3.Const("v!sl", VBLK.sort()), z3.Real("t!sl")
        return [
            z3.ForAll([b, n], z3.Implies(z3.And(0 <= n, n <= cols(b)), z3.And(cols(sliceU(b, n)) == n, rows(sliceU(b, n)) == rows(b))), patterns=[sliceU(b, n)]),
            z3.ForAll([b, n], z3.Implies(z3.And(0 <= n, n <= rows(b)), z3.And(rows(sliceV(b, n)) == n, cols(sliceV(b, n)) == cols(b))), patterns=[sliceV(b, n)]),
            z3.ForAll([v, n], z3.Implies(z3.And(0 <= n, n <= vlen(v)), vlen(sliceS(v, n)) == n), patterns=[sliceS(v, n)]),
            z3.ForAll([v, t], z3.And(0 <= CNTGE(v, t), CNTGE(v, t) <= vlen(v)), patterns=[CNTGE(v, t)]),
        ]

    def body(it):
        install(it)
        ctx = it.ctx
        cls = it.get_class("abelian_core", "AbelianArray")
        n = ctx.fresh("n_sectors", TInt)
        ctx.assume(n >= 0)
        K = z3.Const("U_sectors_in_order", z3.ArraySort(z3.IntSort(), TUP2.sort()))
        pos = z3.Function("position_of_sector", TUP2.sort(), z3.IntSort())
        posc = z3.Function("position_of_column_charge", z3.IntSort(), z3.IntSort())
        i, j = z3.Int("i!sl"), z3.Int("j!sl")
        key, cc = z3.Const("key!sl", TUP2.sort()), z3.Int("c!sl")

        def mkdict(name, kty, vty):
            return SymDict(z3.Const(name + "_has", z3.ArraySort(kty.sort(), z3.BoolSort())), z3.Const(name + "_val", z3.ArraySort(kty.sort(), vty.sort())), kty, vty, name)

        ub, sb, vb = mkdict("U_blocks", TUP2, MBLK), mkdict("s_blocks", TInt, VBLK), mkdict("VH_blocks", TUP2, MBLK)
        U0, S0, V0 = (ub.has, ub.val), (sb.has, sb.val), (vb.has, vb.val)
        inr = lambda x: z3.And(0 <= x, x < n)  # noqa: E731
        # post-state of svd(x) (contracts/linalg_bonds.py) + dict insertion order (A-order)
        ctx.assume(z3.ForAll([i], z3.Implies(inr(i), z3.And(z3.Select(U0[0], K[i]), pos(K[i]) == i, posc(k1(K[i])) == i))))
        ctx.assume(z3.ForAll([key], z3.Implies(z3.Select(U0[0], key), z3.And(inr(pos(key)), K[pos(key)] == key))))
        ctx.assume(z3.ForAll([cc], z3.Select(S0[0], cc) == z3.And(inr(posc(cc)), k1(K[posc(cc)]) == cc)))
        ctx.assume(z3.ForAll([key], z3.Select(V0[0], key) == z3.And(k0(key) == k1(key), z3.Select(S0[0], k1(key)))))
        # shapes: bond size = columns of U block = rows of VH block = number of singular values
        ctx.assume(z3.ForAll([i], z3.Implies(inr(i), z3.And(cols(z3.Select(U0[1], K[i])) == vlen(z3.Select(S0[1], k1(K[i]))), rows(z3.Select(V0[1], mkkey(k1(K[i]), k1(K[i])))) == vlen(z3.Select(S0[1], k1(K[i]))), vlen(z3.Select(S0[1], k1(K[i]))) >= 1))))

        row_ix, col_ix = mk_index(it, "row"), mk_index(it, "col")
        bondU, bondV = mk_index(it, "bondU"), mk_index(it, "bondV")
        symo = sym_obj(it, "U1")
        U, VH = SymObj(cls, tag="U"), SymObj(cls, tag="VH")
        U.fields.update({"_blocks": ub, "_indices": (row_ix, bondU), "_symmetry": symo, "_charge": SV(ctx.fresh("cU", TInt), TInt)})
        VH.fields.update({"_blocks": vb, "_indices": (bondV, col_ix), "_symmetry": symo, "_charge": SV(z3.IntVal(0), TInt)})
        # U.sectors is read twice: before the slicing loop (dict order made explicit, see A-order) and, when the
        # singular values are absorbed, after it (then the real property: the surviving keys in any order)
        reads = []
        sect_fget = it.get_class("block_core", "BlockBase").lookup("sectors")[0].fget

        def sectors(it_, a, kw):
            if a[0] is U and not reads:
                reads.append(1)
                return SymSeq(n, K, TUP2, "tuple")
            del it_.summaries["block_core.BlockBase.sectors"]
            try:
                return it_.call(sect_fget, a)
            finally:
                it_.summaries["block_core.BlockBase.sectors"] = sectors

        it.summaries["block_core.BlockBase.sectors"] = sectors
        s = SymObj(None, tag="s")
        s.fields["blocks"] = sb
        s.fields["to_dense"] = BuiltinVal("to_dense", lambda it_, a, kw: SymObj(None, tag="dense"))
        x = SymObj(None, tag="x")
        x.fields["backend"] = "numpy"
        it.summaries["linalg.svd"] = lambda it_, a, kw: (U, s, VH)
        it.debug_flag = False
        cutoff = ctx.fresh("cutoff", TReal)
        ctx.assume(cutoff > 0)
        t = cutoff  # mode 1, no bond limit: the threshold is the cutoff (the threshold itself: tasks above)
        N = lambda q: CNTGE(z3.Select(S0[1], k1(K[q])), t)  # noqa: E731
        def ar_do(it_, a, kw):
            if a[0] == "sort":
                return SymObj(None, tag="sorted")
            if a[0] == "sqrt" and isinstance(a[1], SV) and a[1].ty == VBLK:
                return SV(sqrtv(a[1].t), VBLK)
            raise Unsupported(f"ar.do({a[0]!r})")

        it.externals["ar.do"] = ar_do

        def reshape(it_, obj, a, kw):
            shp = a[0] if len(a) == 1 else tuple(a)
            if shp == (1, -1):
                return SV(as_row(obj.t), BC)
            if shp == (-1, 1):
                return SV(as_col(obj.t), BC)
            raise Unsupported(f"reshape{shp}")

        it.opaque_methods = {("SingularValuesOfSector", "reshape"): reshape}
        vv = z3.Const("v!bc", VBLK.sort())

        def binop_hook(it_, op, a, b):
            if op is _ast.Mult and isinstance(a, SV) and a.ty == MBLK and isinstance(b, SV) and b.ty == BC:
                # b is as_row(v) or as_column(v): recover v by the two injections
                v = ctx.fresh("bcv", VBLK)
                isrow = ctx.branch(z3.Exists([vv], b.t == as_row(vv)), "bcrow")
                ctx.assume(b.t == (as_row(v) if isrow else as_col(v)))
                return SV((scale_cols if isrow else scale_rows)(a.t, v), MBLK)
            return None

        it.binop_hook = binop_hook
        it.externals["ar.size"] = lambda it_, a, kw: SV(ctx.fresh("total", TInt), TInt)

        def comp_hook(it_, e, env, kind, it0):
            if isinstance(it0, KeyIter) and it0.has is sb.has and it0.mode == "values":
                q = z3.Int("q!cnt")
                return SymList(n, z3.Lambda([q], N(q)), TInt)  # aligned with U.sectors (A-order)
            return None

        it.comp_hook = comp_hook

        def og(it_, obj, key_):
            from pyvc.interp import SliceVal

            if isinstance(key_, tuple) and len(key_) == 2 and all(isinstance(z, SliceVal) for z in key_):
                a, b = key_
                if a.lo is None and a.hi is None and b.lo is None and b.hi is not None:
                    from pyvc.interp import I

                    return SV(sliceU(obj.t, I(b.hi)), MBLK)
                if b.lo is None and b.hi is None and a.lo is None and a.hi is not None:
                    from pyvc.interp import I

                    return SV(sliceV(obj.t, I(a.hi)), MBLK)
            raise Unsupported("unexpected subscript of a block")

        it.opaque_getitem = dict(getattr(it, "opaque_getitem", {}), MBlock=og)

        def oslice(it_, obj, lo, hi, st):
            from pyvc.interp import I

            if lo is None and st is None and hi is not None:
                return SV(sliceS(obj.t, I(hi)), VBLK)
            raise Unsupported("unexpected slice of singular values")

        it.opaque_slice = dict(getattr(it, "opaque_slice", {}), SingularValuesOfSector=oslice)

        def view(d, dflt):
            if isinstance(d, dict):
                assert not d
                return (lambda q: z3.BoolVal(False)), (lambda q: dflt)
            return (lambda q: z3.Select(d.has, q)), (lambda q: z3.Select(d.val, q))

        def state(k, nc):
            """the three block dicts and the new table after the first k sectors have been processed"""
            nh, nv = view(nc, z3.IntVal(0))
            done = lambda p: z3.And(0 <= p, p < k)  # noqa: E731
            return [
                ("U_keys", z3.ForAll([key], z3.Select(ub.has, key) == z3.And(z3.Select(U0[0], key), z3.Or(z3.Not(done(pos(key))), N(pos(key)) > 0)))),
                ("U_values", z3.ForAll([key], z3.Implies(z3.Select(ub.has, key), z3.Select(ub.val, key) == z3.If(done(pos(key)), sliceU(z3.Select(U0[1], key), N(pos(key))), z3.Select(U0[1], key))))),
                ("s_keys", z3.ForAll([cc], z3.Select(sb.has, cc) == z3.And(z3.Select(S0[0], cc), z3.Or(z3.Not(done(posc(cc))), N(posc(cc)) > 0)))),
                ("s_values", z3.ForAll([cc], z3.Implies(z3.Select(sb.has, cc), z3.Select(sb.val, cc) == z3.If(done(posc(cc)), sliceS(z3.Select(S0[1], cc), N(posc(cc))), z3.Select(S0[1], cc))))),
                ("VH_keys", z3.ForAll([key], z3.Select(vb.has, key) == z3.And(z3.Select(V0[0], key), z3.Or(z3.Not(done(posc(k1(key)))), N(posc(k1(key))) > 0)))),
                ("VH_values", z3.ForAll([key], z3.Implies(z3.Select(vb.has, key), z3.Select(vb.val, key) == z3.If(done(posc(k1(key))), sliceV(z3.Select(V0[1], key), N(posc(k1(key)))), z3.Select(V0[1], key))))),
                ("bond_table_keys", z3.ForAll([cc], nh(cc) == z3.And(z3.Select(S0[0], cc), done(posc(cc)), N(posc(cc)) > 0))),
                ("bond_table_sizes", z3.ForAll([cc], z3.Implies(nh(cc), nv(cc) == N(posc(cc))))),
            ]

        def inv(it_, env, g):
            return state(g["k"], env.vars["new_inner_chargemap"])

        cells = [lambda env: ub, lambda env: sb, lambda env: vb]
        # the first `for` statement of the function (comprehensions are not counted)
        it.loop_specs[(Q2, 0)] = LoopSpec(carried={"new_inner_chargemap": ("dict", TInt, TInt)}, cells=cells, invariant=inv)
        fn = it.module_lookup("linalg", "svd_truncated")
        pw = (lambda v: sqrtv(v)) if side == "both" else (lambda v: v)

        def cap(it_, env):
            return {"U": (ub.has, ub.val), "V": (vb.has, vb.val), "S": (sb.has, sb.val)}

        def inv2(it_, env, g):
            U1, V1, S1 = g["pre"]["U"], g["pre"]["V"], g["pre"]["S"]
            vis = g["vis"]
            sval = lambda c_: z3.Select(S1[1], c_)  # noqa: E731
            out = [
                ("keys_fixed", z3.And(ub.has == U1[0], vb.has == V1[0], sb.has == S1[0], sb.val == S1[1])),
            ]
            if side in ("left", "both"):
                out.append(("visited_U_blocks_scaled", z3.ForAll([key], z3.Implies(z3.Select(U1[0], key), z3.Select(ub.val, key) == z3.If(z3.Select(vis, key), scale_cols(z3.Select(U1[1], key), pw(sval(k1(key)))), z3.Select(U1[1], key))))))
            else:
                out.append(("U_blocks_untouched", ub.val == U1[1]))
            if side in ("right", "both"):
                out.append(("VH_blocks_of_visited_charges_scaled", z3.ForAll([key], z3.Implies(z3.Select(V1[0], key), z3.Select(vb.val, key) == z3.If(z3.Select(vis, K[posc(k1(key))]), scale_rows(z3.Select(V1[1], key), pw(sval(k1(key)))), z3.Select(V1[1], key))))))
            else:
                out.append(("VH_blocks_untouched", vb.val == V1[1]))
            return out

        if absorb is not None:
            it.loop_specs[(Q2, 1)] = LoopSpec(carried={}, cells=cells, invariant=inv2, pre_capture=cap)
            # injectivity of the two broadcasts (they are views of the same data)
            v1, v2 = z3.Const("v1!bc", VBLK.sort()), z3.Const("v2!bc", VBLK.sort())
            ctx.assume(z3.ForAll([v1, v2], z3.And(z3.Implies(as_row(v1) == as_row(v2), v1 == v2), z3.Implies(as_col(v1) == as_col(v2), v1 == v2), as_row(v1) != as_col(v2))))

        def post_absorbed(r):
            if not (isinstance(r, tuple) and len(r) == 3 and r[0] is U and r[1] is None and r[2] is VH):
                return [("returns_U_None_VH", False)]
            kept = lambda p: z3.And(inr(p), N(p) > 0)  # noqa: E731
            sl_u = lambda key_: sliceU(z3.Select(U0[1], key_), N(pos(key_)))  # noqa: E731
            sl_v = lambda key_: sliceV(z3.Select(V0[1], key_), N(posc(k1(key_))))  # noqa: E731
            sl_s = lambda c_: sliceS(z3.Select(S0[1], c_), N(posc(c_)))  # noqa: E731
            out = [
                ("U_keeps_exactly_the_sectors_with_a_surviving_value", z3.ForAll([key], z3.Select(ub.has, key) == z3.And(z3.Select(U0[0], key), kept(pos(key))))),
                ("VH_keeps_exactly_the_diagonal_sectors_of_surviving_charges", z3.ForAll([key], z3.Select(vb.has, key) == z3.And(z3.Select(V0[0], key), kept(posc(k1(key)))))),
            ]
            if side in ("left", "both"):
                out.append(("every_U_block_is_the_sliced_block_with_columns_scaled_by_the_kept_values", z3.ForAll([key], z3.Implies(z3.Select(ub.has, key), z3.Select(ub.val, key) == scale_cols(sl_u(key), pw(sl_s(k1(key))))))))
            else:
                out.append(("U_blocks_only_sliced", z3.ForAll([key], z3.Implies(z3.Select(ub.has, key), z3.Select(ub.val, key) == sl_u(key)))))
            if side in ("right", "both"):
                out.append(("every_VH_block_is_the_sliced_block_with_rows_scaled_by_the_kept_values", z3.ForAll([key], z3.Implies(z3.Select(vb.has, key), z3.Select(vb.val, key) == scale_rows(sl_v(key), pw(sl_s(k1(key))))))))
            else:
                out.append(("VH_blocks_only_sliced", z3.ForAll([key], z3.Implies(z3.Select(vb.has, key), z3.Select(vb.val, key) == sl_v(key)))))
            return out

        def post(r):
            if not (isinstance(r, tuple) and len(r) == 3 and r[0] is U and r[1] is s and r[2] is VH):
                return [("returns_the_three_truncated_factors", False)]
            out = []
            kept = lambda p: z3.And(inr(p), N(p) > 0)  # noqa: E731
            ui, vi = U.fields["_indices"], VH.fields["_indices"]
            ok = isinstance(ui, tuple) and isinstance(vi, tuple) and len(ui) == 2 and len(vi) == 2
            out.append(("factors_stay_matrices", ok))
            if not ok:
                return out
            bl, br = ui[1], vi[0]
            cml, cmr = bl.fields["_chargemap"], br.fields["_chargemap"]
            out += [
                ("U_keeps_exactly_the_sectors_with_a_surviving_value", z3.ForAll([key], z3.Select(ub.has, key) == z3.And(z3.Select(U0[0], key), kept(pos(key))))),
                ("U_blocks_are_the_first_columns", z3.ForAll([key], z3.Implies(z3.Select(ub.has, key), z3.Select(ub.val, key) == sliceU(z3.Select(U0[1], key), N(pos(key)))))),
                ("s_keeps_exactly_the_charges_with_a_surviving_value", z3.ForAll([cc], z3.Select(sb.has, cc) == z3.And(z3.Select(S0[0], cc), kept(posc(cc))))),
                ("s_blocks_are_the_first_values", z3.ForAll([cc], z3.Implies(z3.Select(sb.has, cc), z3.Select(sb.val, cc) == sliceS(z3.Select(S0[1], cc), N(posc(cc)))))),
                ("VH_keeps_exactly_the_diagonal_sectors_of_surviving_charges", z3.ForAll([key], z3.Select(vb.has, key) == z3.And(k0(key) == k1(key), z3.Select(sb.has, k1(key))))),
                ("VH_blocks_are_the_first_rows", z3.ForAll([key], z3.Implies(z3.Select(vb.has, key), z3.Select(vb.val, key) == sliceV(z3.Select(V0[1], key), N(posc(k1(key))))))),
                ("sectors_are_removed_together", z3.ForAll([key], z3.Implies(z3.Select(ub.has, key), z3.And(z3.Select(sb.has, k1(key)), z3.Select(vb.has, mkkey(k1(key), k1(key))))))),
                ("bond_table_on_U_has_exactly_the_surviving_charges", z3.ForAll([cc], z3.Select(cml.has, cc) == z3.Select(sb.has, cc))),
                ("bond_table_sizes_are_the_kept_counts", z3.ForAll([cc], z3.Implies(z3.Select(cml.has, cc), z3.Select(cml.val, cc) == N(posc(cc))))),
                ("bond_tables_equal_on_both_factors", z3.ForAll([cc], z3.And(z3.Select(cml.has, cc) == z3.Select(cmr.has, cc), z3.Implies(z3.Select(cml.has, cc), z3.Select(cml.val, cc) == z3.Select(cmr.val, cc))))),
                ("bond_directions_unchanged", z3.And(dual_term(bl) == dual_term(bondU), dual_term(br) == dual_term(bondV))),
                ("outer_indices_kept", ui[0] is row_ix and vi[1] is col_ix),
                # Valid: block shapes match the new bond table
                ("U_block_columns_match_bond_table", z3.ForAll([key], z3.Implies(z3.Select(ub.has, key), cols(z3.Select(ub.val, key)) == z3.Select(cml.val, k1(key))))),
                ("VH_block_rows_match_bond_table", z3.ForAll([key], z3.Implies(z3.Select(vb.has, key), rows(z3.Select(vb.val, key)) == z3.Select(cmr.val, k1(key))))),
                ("s_block_lengths_match_bond_table", z3.ForAll([cc], z3.Implies(z3.Select(sb.has, cc), vlen(z3.Select(sb.val, cc)) == z3.Select(cml.val, cc)))),
                ("bond_sizes_positive", z3.ForAll([cc], z3.Implies(z3.Select(cml.has, cc), z3.Select(cml.val, cc) >= 1))),
            ]
            return out

        if absorb is None:
            check_call(it, "svd_truncated.slicing", fn, [x], {"cutoff": SV(cutoff, TReal), "cutoff_mode": 1, "max_bond": -1, "absorb": None, "renorm": 0}, post=post)
        elif side is None:
            res, exc = check_call(it, f"svd_truncated.absorb_{aname}", fn, [x], {"cutoff": SV(cutoff, TReal), "cutoff_mode": 1, "max_bond": -1, "absorb": absorb, "renorm": 0}, raises={"ValueError": lambda it_: n >= 1})
            ctx.oblige(f"svd_truncated.absorb_{aname}.unknown_absorb_value_raises_when_a_sector_survives", z3.BoolVal(exc == "ValueError") if exc else z3.BoolVal(True))
        else:
            check_call(it, f"svd_truncated.absorb_{aname}", fn, [x], {"cutoff": SV(cutoff, TReal), "cutoff_mode": 1, "max_bond": -1, "absorb": absorb, "renorm": 0}, post=post_absorbed)

    return Task(
        "C13.svd_truncated.slicing_and_bond_tables" if absorb is None else f"C13.svd_truncated.absorb_{aname}",
        ["C13", "C01"],
        [Q2, "abelian_core.AbelianArray.modify", "abelian_core.BlockIndex.copy_with"],
        body,
        axioms=axioms,
        assumes=[
            "A-order: svd() fills U.blocks and s.blocks in the same loop, so U.sectors and s.blocks.values() are iterated in corresponding order (python dict insertion order); made explicit as a sequence of sectors",
            "post-state of svd(x) as proved in contracts/linalg_bonds.py (one block per column charge, shapes of the factors)",
            "A-numpy: b[:, :n], b[:n, :], v[:n] keep the first n columns / rows / values",
            "absorb: b * v.reshape((1, -1)) scales the columns, b * v.reshape((-1, 1)) the rows of b by v; that the three variants give the same product is numerics (bounded tier)",
        ],
        timeout_ms=30000,
    )


def tasks():
    return [_slicing_task(a) for a in (None, -1, 1, 0, "left", "right", "both", 7)] + [_task(m, wb) for m in range(1, 7) for wb in (False, True)] + [_task(m, False, monotone=True) for m in range(1, 7)]
