"""Sidecar contracts for the sign-carrying structural operations of FermionicArray
(C03, C09, C10, C14): transpose (phase=True/False), conj (all flag settings), dagger.

All clauses are over the `val` view  val(x, s) = eff(x, s) * block(x, s):
  transpose(axes, phase=True) : val'(perm(s)) = kz(par s, axes) * T_axes(val(s)), nothing else stored
  transpose(axes, phase=False): val'(perm(s)) = T_axes(val(s))
  conj(pp, pd)                : val'(s) = g * [pp] kz(par s, None) * [pd] (-1)^{#odd entries of s on the
                                originally dual legs} * conj(val(s)),  g = -1 iff pp and odd parity and odd label count
  dagger(pd)                  : val'(rev s) = g * [pd] (-1)^{..} * T(conj(val(s)))   (table re-keyed, no reversal sign:
                                the data really is transposed)
numpy primitives (transpose, conj) are uninterpreted functions that commute with negation.
"""

import z3

from pyvc.builtins_model import LoopSpec, SUM_fn, zlen
from pyvc.core import SV, SymDict, SymObj, SymSeq, TBool, TInt, Unsupported
from pyvc.interp import I
from pyvc.task import Task, check_call

from .arrays import (
    BLK,
    CHG,
    IDX,
    NONE_PERM,
    ODD,
    PAR,
    PERM,
    REV,
    SEC,
    Snapshot,
    conj_idx,
    conjb,
    dag_odd,
    eff,
    fresh_result_clauses,
    install_rekey_hooks,
    kz,
    len_odd,
    mk_farray,
    neg,
    neg_chg,
    par,
    par_at,
    par_chg,
    parities,
    perm_idx,
    perm_sec,
    rekey_axioms,
    sec_at,
    smul,
    spec_phase_flip,
    spec_phase_global,
    symmetry_with_sign,
    tr,
    unperm_sec,
)
from .util import fresh_seq

FA = "fermionic_core.FermionicArray"
S = SUM_fn()


def sv(n):
    return z3.Const(n, SEC.sort())


def val0(B0, P0, s):
    return smul(eff(P0[0], P0[1], s), z3.Select(B0[1], s))


def valr(res, s):
    rb, rp = res.fields["_blocks"], res.fields["_phases"]
    return smul(eff(rp.has, rp.val, s), z3.Select(rb.val, s))


def table_ok(res, nm="s!t"):
    """table only names stored sectors, values +-1"""
    rb, rp = res.fields["_blocks"], res.fields["_phases"]
    s = sv(nm)
    return z3.ForAll([s], z3.Implies(z3.Select(rp.has, s), z3.And(z3.Select(rb.has, s), z3.Or(z3.Select(rp.val, s) == 1, z3.Select(rp.val, s) == -1))))


def stored_only(x):
    """Valid(x): the pending-sign table only names stored sectors"""
    s = sv("s!so")
    return z3.ForAll([s], z3.Implies(z3.Select(x.fields["_phases"].has, s), z3.Select(x.fields["_blocks"].has, s)))


def frame(it, res, x, snap, inplace):
    if inplace:
        return [("inplace_returns_receiver", res is x)]
    return fresh_result_clauses(res, x, snap) + [("operand_" + n, t) for n, t in snap.unchanged()]


# ------------------------------------------------------------------ transpose


def _transpose_task(phase, inplace):
    def body(it):
        install_rekey_hooks(it)
        x = mk_farray(it)
        it.ctx.assume(stored_only(x))
        snap = Snapshot(x)
        B0 = (x.fields["_blocks"].has, x.fields["_blocks"].val)
        P0 = (x.fields["_phases"].has, x.fields["_phases"].val)
        I0 = x.fields["_indices"].t
        axes = SV(it.ctx.fresh("axes", PERM), PERM)
        a = axes.t

        def inv(it_, env, g):
            np_ = env.vars["new_phases"]
            vis = g["vis"]
            k = sv("k!inv")
            if isinstance(np_, dict):
                assert not np_
                has = lambda q: z3.BoolVal(False)
                val = lambda q: z3.IntVal(-1)
            else:
                has = lambda q: z3.Select(np_.has, q)
                val = lambda q: z3.Select(np_.val, q)
            src = unperm_sec(k, a)
            want = z3.And(z3.Select(vis, src), eff(P0[0], P0[1], src) * kz(parities(src), a) == -1)
            return [
                ("entry_iff_image_of_visited_sector_with_negative_sign", z3.ForAll([k], has(k) == want)),
                ("entries_are_minus_one", z3.ForAll([k], z3.Implies(has(k), val(k) == -1))),
            ]

        it.loop_specs[(FA + ".transpose", 0)] = LoopSpec(carried={"new_phases": ("dict", SEC, TInt)}, invariant=inv)

        def post(res):
            out = frame(it, res, x, snap, inplace)
            if not isinstance(res, SymObj):
                return out
            rb, rp = res.fields["_blocks"], res.fields["_phases"]
            s, k = sv("s!post"), sv("k!post")
            sign = kz(parities(s), a) if phase else z3.IntVal(1)
            out += [
                ("stored_sectors_are_exactly_the_permuted_ones", z3.ForAll([k], z3.Select(rb.has, k) == z3.Select(B0[0], unperm_sec(k, a)))),
                ("val_of_permuted_sector", z3.ForAll([s], z3.Implies(z3.Select(B0[0], s), valr(res, perm_sec(s, a)) == smul(sign, tr(val0(B0, P0, s), a))))),
                ("table_names_stored_sectors_with_signs", table_ok(res)),
                ("indices_permuted", isinstance(res.fields["_indices"], SV) and res.fields["_indices"].t == perm_idx(I0, a)),
                ("charge_kept", res.fields["_charge"].t == snap.vals["_charge"].t),
                ("labels_kept", res.fields["_oddpos"].t == snap.vals["_oddpos"].t),
            ]
            return out

        check_call(it, f"FermionicArray.transpose[phase={phase},inplace={inplace}]", it.getattr(x, "transpose"), [axes], {"phase": phase, "inplace": inplace}, post=post)

    return Task(
        f"C03.transpose.phase_{phase}.inplace_{inplace}",
        ["C03", "C09", "C14", "C01"],
        [FA + ".transpose", "abelian_core.AbelianArray.transpose", FA + ".modify", FA + ".copy"],
        body,
        axioms=rekey_axioms,
        assumes=[
            "requires: axes is a permutation of range(ndim) => permuted(., axes) is a bijection on sectors (ghost perm/unperm)",
            "callee contract calc_phase_permutation == ghost Koszul sign kz (contracts/koszul.py, bounded/run_koszul.py)",
            "A-numpy: transpose(-b) = -transpose(b)",
            "Valid(x): pending signs are +-1 and only name stored sectors",
        ],
    )


# ------------------------------------------------------------------ conj


def _conj_task(pp, pd, inplace):
    def body(it):
        install_rekey_hooks(it)
        x = mk_farray(it)
        x.fields["_symmetry"] = symmetry_with_sign(it)
        it.ctx.assume(stored_only(x))
        snap = Snapshot(x)
        B0 = (x.fields["_blocks"].has, x.fields["_blocks"].val)
        P0 = (x.fields["_phases"].has, x.fields["_phases"].val)
        I0, C0, O0 = x.fields["_indices"].t, x.fields["_charge"].t, x.fields["_oddpos"].t
        # ghost: the axes whose ORIGINAL index is dual (= not dual after conjugation)
        axs = fresh_seq(it, "axs_conj", TInt)

        def comp_hook(it_, e, env, kind, it0):
            if isinstance(it0, SV) and it0.ty == SEC:
                return SV(parities(it0.t), PAR)
            if isinstance(it0, SV) and it0.ty == IDX:
                # tuple(ix.conj() for ix in new.indices)
                return SV(conj_idx(it0.t), IDX)
            if isinstance(it0, SymObj) and it0.fields.get("$enumerate_of") is not None:
                # tuple(ax for ax, ix in enumerate(new_indices) if not ix.dual)
                tok = it0.fields["$enumerate_of"]
                it_.ctx.oblige("FermionicArray.conj.dual_leg_axes_selected_on_conjugated_indices", tok.ty == IDX and tok.t == conj_idx(I0))
                src = __import__("ast").unparse(e)
                it_.ctx.oblige("FermionicArray.conj.selects_axes_not_dual_after_conjugation", "if not ix.dual" in src and src.startswith("(ax for ax, ix in") or "if not ix.dual" in src)
                return axs
            return None

        it.comp_hook = comp_hook
        it.map_hook = lambda it_, f, v: SV(parities(v.t), PAR) if v.ty == SEC else None
        it.builtins["enumerate"].fn = (lambda orig: (lambda it_, a, k: SymObj(None, {"$enumerate_of": a[0]}, tag="enum") if isinstance(a[0], SV) and a[0].ty == IDX else orig(it_, a, k)))(it.builtins["enumerate"].fn)
        it.loop_specs[(FA + ".phase_global", 0)] = spec_phase_global()
        i = z3.Int("mi!c")

        def F(s):
            return S(z3.Lambda([i], par_at(parities(s), z3.Select(axs.arr, i))), axs.length) % 2

        def factor(s):
            f = z3.IntVal(1)
            if pp:
                f = f * kz(parities(s), NONE_PERM)
            if pd:
                f = f * (1 - 2 * F(s))
            return f

        def inv(it_, env, g):
            new = env.vars["new"]
            bl, ph = new.fields["_blocks"], new.fields["_phases"]
            vis = g["vis"]
            s = sv("s!inv")
            return [
                ("keys_fixed", z3.ForAll([s], z3.Select(bl.has, s) == z3.Select(B0[0], s))),
                ("visited_conjugated_with_sign", z3.ForAll([s], z3.Implies(z3.Select(vis, s), z3.And(z3.Select(bl.val, s) == conjb(z3.Select(B0[1], s)), eff(ph.has, ph.val, s) == eff(P0[0], P0[1], s) * factor(s))))),
                ("unvisited_untouched", z3.ForAll([s], z3.Implies(z3.Not(z3.Select(vis, s)), z3.And(z3.Select(bl.val, s) == z3.Select(B0[1], s), z3.Select(ph.has, s) == z3.Select(P0[0], s), z3.Select(ph.val, s) == z3.Select(P0[1], s))))),
                ("table_ok", z3.ForAll([s], z3.Implies(z3.Select(ph.has, s), z3.And(z3.Select(B0[0], s), z3.Or(z3.Select(ph.val, s) == 1, z3.Select(ph.val, s) == -1))))),
            ]

        it.loop_specs[(FA + ".conj", 0)] = LoopSpec(carried={}, cells=[lambda env: env.vars["new"].fields["_blocks"], lambda env: env.vars["new"].fields["_phases"]], invariant=inv)

        def post(res):
            out = frame(it, res, x, snap, inplace)
            if not isinstance(res, SymObj):
                return out
            rb = res.fields["_blocks"]
            s = sv("s!post")
            g = z3.If(z3.And(z3.BoolVal(bool(pp)), par_chg(neg_chg(C0)) != 0, len_odd(dag_odd(O0)) % 2 == 1), -1, 1)
            out += [
                ("same_sectors", z3.ForAll([s], z3.Select(rb.has, s) == z3.Select(B0[0], s))),
                ("val_is_signed_conjugate", z3.ForAll([s], z3.Implies(z3.Select(B0[0], s), valr(res, s) == smul(g * factor(s), conjb(val0(B0, P0, s)))))),
                ("table_names_stored_sectors_with_signs", table_ok(res)),
                ("indices_conjugated", res.fields["_indices"].t == conj_idx(I0)),
                ("charge_negated", res.fields["_charge"].t == neg_chg(C0)),
                ("labels_conjugated", res.fields["_oddpos"].t == dag_odd(O0)),
            ]
            return out

        check_call(it, f"FermionicArray.conj[pp={pp},pd={pd},inplace={inplace}]", it.getattr(x, "conj"), [], {"phase_permutation": pp, "phase_dual": pd, "inplace": inplace}, post=post)

    return Task(
        f"C10.conj.pp_{pp}.pd_{pd}.inplace_{inplace}",
        ["C10", "C09", "C14", "C03", "C01"],
        [FA + ".conj", FA + ".phase_global", FA + ".modify", FA + ".parity"],
        body,
        axioms=rekey_axioms,
        assumes=[
            "ghost axs_conj = axes whose index is not dual after conjugation (= originally dual legs); the selecting comprehension is matched syntactically",
            "callee contracts: calc_phase_permutation == kz; oddpos_dag (contracts/oddpos.py); Symmetry.sign / parity",
            "A-numpy: conj(-b) = -conj(b)",
        ],
    )


# ------------------------------------------------------------------ dagger

rev_idx = z3.Function("rev_idx", IDX.sort(), IDX.sort())


def _dagger_task(pd, inplace):
    def body(it):
        install_rekey_hooks(it)
        x = mk_farray(it)
        x.fields["_symmetry"] = symmetry_with_sign(it)
        it.ctx.assume(stored_only(x))
        snap = Snapshot(x)
        B0 = (x.fields["_blocks"].has, x.fields["_blocks"].val)
        P0 = (x.fields["_phases"].has, x.fields["_phases"].val)
        I0, C0, O0 = x.fields["_indices"].t, x.fields["_charge"].t, x.fields["_oddpos"].t
        axs = fresh_seq(it, "axs_conj", TInt)
        NEWI = conj_idx(rev_idx(I0))
        it.opaque_slice = {"Sector": lambda it_, obj, lo, hi, st: SV(perm_sec(obj.t, REV), SEC) if (lo is None and hi is None and st == -1) else (_ for _ in ()).throw(Unsupported("slice of sector"))}

        def comp_hook(it_, e, env, kind, it0):
            if isinstance(it0, SV) and it0.ty == SEC:
                return SV(parities(it0.t), PAR)
            if isinstance(it0, SV) and it0.ty == IDX:
                return SV(conj_idx(it0.t), IDX)
            if isinstance(it0, SymObj) and it0.fields.get("$enumerate_of") is not None:
                tok = it0.fields["$enumerate_of"]
                it_.ctx.oblige("FermionicArray.dagger.dual_leg_axes_selected_on_new_indices", tok.ty == IDX and tok.t == NEWI)
                src = __import__("ast").unparse(e)
                it_.ctx.oblige("FermionicArray.dagger.selects_axes_not_dual_after_conjugation", "if not ix.dual" in src)
                return axs
            return None

        it.comp_hook = comp_hook
        it.builtins["enumerate"].fn = (lambda orig: (lambda it_, a, k: SymObj(None, {"$enumerate_of": a[0]}, tag="enum") if isinstance(a[0], SV) and a[0].ty == IDX else orig(it_, a, k)))(it.builtins["enumerate"].fn)
        it.builtins["reversed"].fn = (lambda orig: (lambda it_, a, k: SV(rev_idx(a[0].t), IDX) if isinstance(a[0], SV) and a[0].ty == IDX else orig(it_, a, k)))(it.builtins["reversed"].fn)
        it.loop_specs[(FA + ".phase_global", 0)] = spec_phase_global()
        it.loop_specs[(FA + ".phase_flip", 0)] = spec_phase_flip()
        from .arrays import flip_parity

        def view(d, dflt):
            if isinstance(d, dict):
                assert not d
                return (lambda q: z3.BoolVal(False)), (lambda q: dflt)
            return (lambda q: z3.Select(d.has, q)), (lambda q: z3.Select(d.val, q))

        def inv(it_, env, g):
            new = env.vars["new"]
            ph = new.fields["_phases"]
            vis = g["vis"]
            nbh, nbv = view(env.vars["new_blocks"], z3.Const("dflt_blk", BLK.sort()))
            nph, npv = view(env.vars["new_phases"], z3.IntVal(-1))
            k, s = sv("k!inv"), sv("s!inv")
            src = unperm_sec(k, REV)
            return [
                ("new_blocks_are_images_of_visited", z3.ForAll([k], nbh(k) == z3.And(z3.Select(vis, src), z3.Select(B0[0], src)))),
                ("new_blocks_conjugate_transposed", z3.ForAll([k], z3.Implies(nbh(k), nbv(k) == tr(conjb(z3.Select(B0[1], src)), REV)))),
                ("new_phases_are_images_of_negative_visited", z3.ForAll([k], nph(k) == z3.And(z3.Select(vis, src), eff(P0[0], P0[1], src) == -1))),
                ("new_phases_minus_one", z3.ForAll([k], z3.Implies(nph(k), npv(k) == -1))),
                ("old_table_popped_only_at_visited", z3.ForAll([s], z3.And(z3.Implies(z3.Select(vis, s), z3.Not(z3.Select(ph.has, s))), z3.Implies(z3.Not(z3.Select(vis, s)), z3.And(z3.Select(ph.has, s) == z3.Select(P0[0], s), z3.Select(ph.val, s) == z3.Select(P0[1], s)))))),
            ]

        it.loop_specs[(FA + ".dagger", 0)] = LoopSpec(
            carried={"new_blocks": ("dict", SEC, BLK), "new_phases": ("dict", SEC, TInt)},
            cells=[lambda env: env.vars["new"].fields["_phases"]],
            invariant=inv,
        )

        def post(res):
            out = frame(it, res, x, snap, inplace)
            if not isinstance(res, SymObj):
                return out
            rb = res.fields["_blocks"]
            s, k = sv("s!post"), sv("k!post")
            g = z3.If(z3.And(par_chg(neg_chg(C0)) != 0, len_odd(dag_odd(O0)) % 2 == 1), -1, 1)
            ns = perm_sec(s, REV)
            fl = (1 - 2 * flip_parity(axs, ns)) if pd else z3.IntVal(1)
            if pd:
                fl = z3.If(axs.length == 0, 1, fl)
            out += [
                ("stored_sectors_are_exactly_the_reversed_ones", z3.ForAll([k], z3.Select(rb.has, k) == z3.Select(B0[0], unperm_sec(k, REV)))),
                ("val_is_signed_conjugate_transpose", z3.ForAll([s], z3.Implies(z3.Select(B0[0], s), valr(res, ns) == smul(g * fl, tr(conjb(val0(B0, P0, s)), REV))))),
                ("table_names_stored_sectors_with_signs", table_ok(res)),
                ("indices_reversed_and_conjugated", res.fields["_indices"].t == NEWI),
                ("charge_negated", res.fields["_charge"].t == neg_chg(C0)),
                ("labels_conjugated", res.fields["_oddpos"].t == dag_odd(O0)),
            ]
            return out

        check_call(it, f"FermionicArray.dagger[pd={pd},inplace={inplace}]", it.getattr(x, "dagger"), [], {"phase_dual": pd, "inplace": inplace}, post=post)

    return Task(
        f"C10.dagger.pd_{pd}.inplace_{inplace}",
        ["C10", "C09", "C14", "C03", "C01"],
        [FA + ".dagger", FA + ".phase_global", FA + ".phase_flip", FA + ".modify"],
        body,
        axioms=rekey_axioms,
        assumes=[
            "sector[::-1] is the re-keying by the full reversal (bijection on sectors)",
            "ghost axs_conj = axes of the new (reversed, conjugated) indices that are not dual (= originally dual legs); the selecting comprehension is matched syntactically",
            "A-numpy: transpose/conj commute with negation",
        ],
    )


def _dagger_vs_conj_lemma():
    """property clause: dagger(pd) == conj(phase_dual=pd) followed by the fermionic full reversal.
    Over the val view, with the contracts above: the reversal sign kz(par s, None) that conj(pp=True)
    puts on sector s is cancelled by the transpose sign kz(par s, REV) iff both denote the same
    permutation (A: kz(p, None) == kz(p, REV), checked exhaustively n<=7 in bounded/run_koszul),
    and the odd-label global sign g appears once on both sides."""

    def body(it):
        p = z3.Const("p", PAR.sort())
        e, g, f = z3.Ints("e g f")
        it.ctx.assume(z3.And(z3.Or(e == 1, e == -1), z3.Or(g == 1, g == -1), z3.Or(f == 1, f == -1)))
        it.ctx.assume(z3.Or(kz(p, NONE_PERM) == 1, kz(p, NONE_PERM) == -1))
        it.ctx.assume(kz(p, NONE_PERM) == kz(p, REV))
        conj_then_T = (e * g * kz(p, NONE_PERM) * f) * kz(p, REV)
        dagger = e * g * f
        it.ctx.oblige("dagger_equals_conj_then_fermionic_reversal.sign_identity", conj_then_T == dagger)

    return Task("C10.lemma.dagger_is_conj_then_reversal", ["C10"], [], body, assumes=["kz(p, None) == kz(p, explicit reversal) (bounded: run_koszul reversal_shortcut, n <= 7)", "the dual-leg flip is evaluated on corresponding legs (reversal maps axis i to n-1-i): bounded tier C10.dagger_conj"])


def tasks():
    out = []
    for pd in (False, True):
        for ip in (False, True):
            out.append(_dagger_task(pd, ip))
    out.append(_dagger_vs_conj_lemma())
    for phase in (True, False):
        for ip in (False, True):
            out.append(_transpose_task(phase, ip))
    for pp in (True, False):
        for pd in (True, False):
            out.append(_conj_task(pp, pd, False))
    out.append(_conj_task(True, False, True))
    return out
