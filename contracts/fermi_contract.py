"""Sidecar contract for fermionic_core.tensordot_fermionic (C03, C04, C09, C14): the sign
pipeline around the abelian contraction, step by step as the C03 statement prescribes
("bring the operands adjacent, evaluate each bra-ket pair, one extra sign per odd contracted
index that meets as ket-then-bra"), with every callee replaced by its contract:

  1. both operands are fermionically transposed OUT OF PLACE to [free..., contracted...] / [contracted..., free...]
  2. the contracted legs of b are virtually reversed (phase_transpose, in place on the copy)
  3. exactly the contracted pairs that meet as ket-then-bra get a parity sign, applied on ONE side
     (a's non-dual legs if a.size <= b.size, else b's dual legs -- the same set of pairs)
  4. both copies are synchronised before the abelian contraction reads raw blocks
  5. tensordot_abelian on the trailing / leading axes, array preserved, extra kwargs forwarded
  6. labels resolved (resolve_combined_oddpos(a', b', c)); for a scalar result the pending global
     sign is multiplied in BEFORE the number is read; 0.0 when nothing aligned.
Enumerated over ranks <= 3 and every choice / order of contracted axes (the code is rank generic;
axis numbers only enter through range()/% arithmetic proved in contracts/contraction.py).
"""

import itertools

import z3

from pyvc.core import SV, PyRaise, SymObj, TBool, TInt, Unsupported
from pyvc.interp import BuiltinVal
from pyvc.task import Task

Q = "fermionic_core.tensordot_fermionic"


class Rec:
    """a fermionic operand / copy whose method calls are logged"""

    def __init__(self, it, name, ndim, log, duals=None):
        self.it, self.name, self.log = it, name, log
        o = SymObj(it.get_class("fermionic_core", "FermionicArray"), tag=name)
        self.obj = o
        o.fields["ndim"] = ndim
        o.fields["size"] = SV(it.ctx.fresh(name + "_size", TInt), TInt)
        if duals is not None:
            o.fields["indices"] = tuple(SymObj(None, {"dual": SV(d, TBool)}, tag=f"{name}_ix{i}") for i, d in enumerate(duals))
        for m in ("phase_transpose", "phase_flip", "phase_sync"):
            o.fields[m] = BuiltinVal(f"{name}.{m}", self._mk(m))

    def _mk(self, m):
        def f(it_, a, k):
            self.log.append((self.name, m, tuple(a), dict(k)))
            return self.obj

        return f


def _task(na, nb):
    def body(it):
        ctx = it.ctx
        FA = it.get_class("fermionic_core", "FermionicArray")
        fn = it.module_lookup("fermionic_core", "tensordot_fermionic")
        combos = []
        for ncon in range(0, min(na, nb) + 1):
            for axes_a in itertools.permutations(range(na), ncon):
                for axes_b in itertools.permutations(range(nb), ncon):
                    if ncon >= 2 and (axes_a, axes_b) != (tuple(range(na - ncon, na)), tuple(range(ncon))) and (sum(axes_a) * 7 + sum(i * x for i, x in enumerate(axes_b))) % 3:
                        continue  # thin out the (equivalent) orderings, deterministically
                    for preserve in (False, True):
                        combos.append((ncon, axes_a, axes_b, preserve))
        # each combination is an independent root of the path exploration
        pick = ctx.decide(len(combos), None, "combo")
        ncon, axes_a, axes_b, preserve = combos[pick]
        _one(it, fn, FA, na, nb, ncon, axes_a, axes_b, preserve)

    return Task(
        f"C03.tensordot_fermionic.pipeline.ranks_{na}_{nb}",
        ["C03", "C04", "C09", "C14"],
        [Q],
        body,
        assumes=[
            "callee contracts: FermionicArray.transpose / phase_transpose / phase_flip / phase_sync (contracts/fermi_ops.py, phases.py), tensordot_abelian (contracts/contraction.py + bounded C02), resolve_combined_oddpos (contracts/oddpos.py)",
            "matching contracted legs have opposite directions (Valid contraction)",
        ],
        bounded_rank=f"operand ranks ({na}, {nb}), every number and (thinned) order of contracted axes",
    )


def _one(it, fn, FA, na, nb, ncon, axes_a, axes_b, preserve):
    ctx = it.ctx
    tag = f"tensordot_fermionic[{na},{nb},axes={axes_a}/{axes_b},preserve={preserve}]".replace(" ", "")
    log = []
    left = tuple(i for i in range(na) if i not in axes_a)
    right = tuple(i for i in range(nb) if i not in axes_b)
    # directions of the TRANSPOSED copies; contracted pair i: a' axis na-ncon+i  with  b' axis i
    da = [ctx.fresh(f"a_dual{i}", TBool) for i in range(na)]
    db = [ctx.fresh(f"b_dual{i}", TBool) for i in range(nb)]
    for i in range(ncon):
        ctx.assume(da[na - ncon + i] != db[i])
    a, b = Rec(it, "a", na, log), Rec(it, "b", nb, log)
    a2, b2 = Rec(it, "a_copy", na, log, da), Rec(it, "b_copy", nb, log, db)

    def tr(src, dst):
        def f(it_, args, k):
            log.append((src.name, "transpose", tuple(args), dict(k)))
            return dst.obj

        return BuiltinVal(src.name + ".transpose", f)

    a.obj.fields["transpose"] = tr(a, a2)
    b.obj.fields["transpose"] = tr(b, b2)
    cnd = (na - ncon) + (nb - ncon)
    has_scalar = ctx.fresh("has_scalar_block", TBool)
    c = SymObj(FA, tag="c")
    c.fields["ndim"] = cnd
    state = {"c_synced": False, "read_before_sync": False}

    def c_sync(it_, args, k):
        log.append(("c", "phase_sync", tuple(args), dict(k)))
        state["c_synced"] = True
        return c

    def c_get(it_, obj, key):
        if not state["c_synced"]:
            state["read_before_sync"] = True
        if it_.ctx.branch(has_scalar, "scalar"):
            return "SCALAR"
        raise PyRaise("KeyError", "()")

    def c_get_method(it_, args, k):
        # dict.get((), default) on the block dict: same read, never raises
        if not state["c_synced"]:
            state["read_before_sync"] = True
        if it_.ctx.branch(has_scalar, "scalar"):
            return "SCALAR"
        return args[1] if len(args) > 1 else None

    c.fields["phase_sync"] = BuiltinVal("c.phase_sync", c_sync)
    c.fields["blocks"] = SymObj(None, {"$getitem": c_get, "get": BuiltinVal("c.blocks.get", c_get_method)}, tag="c_blocks")
    tda = []

    def tdot(it_, args, k):
        log.append(("-", "tensordot_abelian", tuple(args), dict(k)))
        tda.append((args, k))
        return c

    def resolve(it_, args, k):
        log.append(("-", "resolve", tuple(args), dict(k)))
        return None

    it.summaries["abelian_core.tensordot_abelian"] = tdot
    it.summaries["fermionic_core.resolve_combined_oddpos"] = resolve
    extra = SymObj(None, tag="mode_token")
    r = it.call(fn, [a.obj, b.obj], {"axes": (axes_a, axes_b), "preserve_array": preserve, "mode": extra})
    ob = ctx.oblige
    names = [(e[0], e[1]) for e in log]

    def idx(who, what):
        return [i for i, e in enumerate(log) if e[0] == who and e[1] == what]

    # 1. out-of-place transposes of the caller's operands, nothing else ever called on them
    ta, tb = idx("a", "transpose"), idx("b", "transpose")
    ob(tag + ".operands_only_transposed_out_of_place", len(ta) == 1 and len(tb) == 1 and [e for e in log if e[0] in ("a", "b") and e[1] != "transpose"] == [] and not log[ta[0]][3].get("inplace") and not log[tb[0]][3].get("inplace"))
    if not (len(ta) == 1 and len(tb) == 1):
        return
    ob(tag + ".a_to_free_then_contracted", log[ta[0]][2] == ((*left, *axes_a),))
    ob(tag + ".b_to_contracted_then_free", log[tb[0]][2] == ((*axes_b, *right),))
    # 2. virtual reversal of b's contracted legs
    pt = idx("b_copy", "phase_transpose")
    want_perm = (*range(ncon - 1, -1, -1), *range(ncon, nb))
    ob(tag + ".virtual_reversal_of_contracted_legs_of_b", len(pt) == 1 and log[pt[0]][2] == (want_perm,) and log[pt[0]][3].get("inplace") is True and idx("a_copy", "phase_transpose") == [])
    # 3. ket-then-bra pairs flipped once, on one side
    fa, fb = idx("a_copy", "phase_flip"), idx("b_copy", "phase_flip")
    ob(tag + ".parity_flip_on_exactly_one_side", len(fa) + len(fb) == 1)
    if len(fa) + len(fb) == 1:
        e = log[(fa or fb)[0]]
        on_a = bool(fa)
        ob(tag + ".side_chosen_by_size", z3.BoolVal(on_a) == (a2.obj.fields["size"].t <= b2.obj.fields["size"].t))
        ob(tag + ".flip_in_place_on_the_copy", e[3].get("inplace") is True)
        flipped_pairs = set()
        ok_axes = True
        for axv in e[2]:
            if not isinstance(axv, int):
                ok_axes = False
                continue
            p = axv - (na - ncon) if on_a else axv
            if not (0 <= p < ncon):
                ok_axes = False
            flipped_pairs.add(p)
        ob(tag + ".flipped_axes_are_contracted_axes", ok_axes and len(flipped_pairs) == len(e[2]))
        # pair i meets as ket-then-bra  <=>  a' leg non-dual
        terms = [z3.BoolVal(i in flipped_pairs) == z3.Not(da[na - ncon + i]) for i in range(ncon)]
        ob(tag + ".flipped_pairs_are_exactly_those_meeting_as_ket_then_bra", z3.And(*terms) if terms else True)
    # 4./5. sync both copies, then contract
    sa, sb, td = idx("a_copy", "phase_sync"), idx("b_copy", "phase_sync"), idx("-", "tensordot_abelian")
    ok = len(sa) == 1 and len(sb) == 1 and len(td) == 1
    ob(tag + ".both_copies_synchronised_once_and_contracted_once", ok)
    if ok:
        last_sign_op = max([i for i, e in enumerate(log) if e[1] in ("phase_transpose", "phase_flip") and e[0] in ("a_copy", "b_copy")] + [-1])
        ob(tag + ".synchronised_after_all_sign_operations_and_before_contraction", last_sign_op < min(sa[0], sb[0]) and max(sa[0], sb[0]) < td[0] and log[sa[0]][3].get("inplace") is True and log[sb[0]][3].get("inplace") is True)
        args, k = tda[0]
        ob(tag + ".abelian_contraction_of_the_copies", len(args) >= 2 and args[0] is a2.obj and args[1] is b2.obj)
        ob(tag + ".contracts_trailing_axes_of_a_with_leading_axes_of_b", k.get("axes") == (tuple(range(na - ncon, na)), tuple(range(ncon))))
        ob(tag + ".array_preserved_for_label_resolution", k.get("preserve_array") is True)
        ob(tag + ".extra_keywords_forwarded", k.get("mode") is extra)
    # 6. labels, scalar
    rs = idx("-", "resolve")
    ob(tag + ".labels_resolved_once_after_contraction", len(rs) == 1 and len(td) == 1 and rs[0] > td[0] and log[rs[0]][2][0] is a2.obj and log[rs[0]][2][1] is b2.obj and log[rs[0]][2][2] is c)
    if cnd == 0 and not preserve:
        ob(tag + ".scalar_read_only_after_pending_signs_are_multiplied_in", not state["read_before_sync"] and state["c_synced"] and (not rs or idx("c", "phase_sync")[0] > rs[0]))
        if r == "SCALAR":
            ob(tag + ".returns_scalar_block", has_scalar)
        elif isinstance(r, float) and r == 0.0:
            ob(tag + ".zero_when_nothing_aligned", z3.Not(has_scalar))
        else:
            ob(tag + ".scalar_result_kind", False)
    else:
        ob(tag + ".returns_array", r is c)


def tasks():
    return [_task(na, nb) for na in (1, 2, 3) for nb in (1, 2, 3)]
