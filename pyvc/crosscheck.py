"""CPython cross-check of the executor (guards assumption A-builtins).

A suite of micro-programs exercising every modelled builtin / container operation /
statement form is run three ways and the results compared:
  (1) CPython (exec),
  (2) the pyvc interpreter on concrete values,
  (3) the pyvc interpreter on SYMBOLIC inputs constrained to the same concrete values
      (so the symbolic sequence / dict / loop models are exercised), result read back
      from a z3 model.
Real kernel functions of /repo (symmetries, sequence helpers, FermionicOperator order,
accum_for_split, calc_phase_permutation) are additionally compared with the real code
under /venv/bin/python.  A mismatch is a checker fault (exit 3), never a finding.
"""

import ast
import json
import subprocess
import sys
import os

import z3

sys.path.insert(0, os.path.dirname(os.path.dirname(os.path.abspath(__file__))))

from pyvc.core import SV, Ctx, PathEnd, PyRaise, SymDict, SymList, SymSeq, TInt, TBool, Unsupported  # noqa: E402
from pyvc.extract import Repo  # noqa: E402
from pyvc.interp import Env, Interp, FuncVal  # noqa: E402

SNIPPETS = [
    # (source of def f(xs, k), list of (xs, k) inputs)
    ("def f(xs, k):\n    return sum(xs) % 4 + len(xs)", None),
    ("def f(xs, k):\n    return sum(x * 2 for x in xs)", None),
    ("def f(xs, k):\n    return all(x > k for x in xs), any(x == k for x in xs)", None),
    ("def f(xs, k):\n    return tuple(xs[i] for i in range(len(xs) - 1, -1, -1))", None),
    ("def f(xs, k):\n    return tuple(reversed(xs))", None),
    ("def f(xs, k):\n    return tuple(x for i, x in enumerate(xs) if i != k)", None),
    ("def f(xs, k):\n    return tuple(x for x in xs if x % 2 == 0)", None),
    ("def f(xs, k):\n    return (*xs[:k], 99, *xs[k:])", None),
    ("def f(xs, k):\n    return xs[k:] + xs[:k]", None),
    ("def f(xs, k):\n    return xs[::-1]", None),
    ("def f(xs, k):\n    return [a + b for a, b in zip(xs, xs[1:])]", None),
    ("def f(xs, k):\n    return (-7) // 2, (-7) % 2, 7 // 2, k // 3, k % 3, (-k) % 4, (-k) // 4", None),
    ("def f(xs, k):\n    s = 0\n    for x in xs:\n        if x < 0:\n            continue\n        if x > 50:\n            break\n        s += x\n    return s", None),
    ("def f(xs, k):\n    i = 0\n    while i < len(xs) and xs[i] != k:\n        i += 1\n    return i", None),
    ("def f(xs, k):\n    d = {}\n    for x in xs:\n        d[x] = d.setdefault(x, 0) + 1\n    return sorted(d.items())", None),
    ("def f(xs, k):\n    d = {x: i for i, x in enumerate(xs)}\n    return d.get(k, -1), k in d, len(d)", None),
    ("def f(xs, k):\n    d = {1: 'a', 2: 'b'}\n    try:\n        return d[k]\n    except KeyError:\n        return 'none'", None),
    ("def f(xs, k):\n    l = list(xs)\n    l.append(k)\n    if l:\n        l.pop(0)\n    return l", None),
    ("def f(xs, k):\n    l = list(xs)\n    l2 = l\n    l2.append(5)\n    return len(l), l is l2", None),
    ("def f(xs, k):\n    return max(0, k - 1), min(k, 3), abs(-k), max(xs) if xs else None", None),
    ("def f(xs, k):\n    a, *rest = (k, *xs)\n    return a, rest", None),
    ("def f(xs, k):\n    *first, last = (*xs, k)\n    return first, last", None),
    ("def f(xs, k):\n    return (1, k) < (1, 2), (k, 0) == (k, 0), (2,) > (1, 5)", None),
    ("def f(xs, k):\n    return k if k > 2 else -k, not k, bool(xs), k and 5, k or 7", None),
    ("def f(xs, k):\n    try:\n        return xs[k]\n    except IndexError:\n        return 'oob'", None),
    ("def f(xs, k):\n    def g(a, b=2, *c, d=4):\n        return a + b + sum(c) + d\n    return g(1), g(1, 2, 3, 4), g(k, d=0)", None),
    ("def f(xs, k):\n    return isinstance(k, int), isinstance(xs, tuple), isinstance(xs, list), isinstance((k,), tuple)", None),
    ("def f(xs, k):\n    out = []\n    for i in range(k):\n        for j in range(i):\n            out.append((i, j))\n    return out", None),
    ("def f(xs, k):\n    return 1 if k % 2 else -1, (k // 2) % 2, k ** 2, 2 ** 3", None),
    ("def f(xs, k):\n    t = tuple(xs)\n    return t.index(k) if k in t else -1", None),
    ("def f(xs, k):\n    s = 'abcab'\n    def key(i):\n        c = s[i]\n        return ('ca'.find(c), c, not (i % 2))\n    return tuple(sorted(range(5), key=key)), sorted([3, 1, 2], reverse=True), sorted(['b', 'a'], key=lambda z: z)", None),
    ("def f(xs, k):\n    s = set()\n    n = 0\n    for x in xs:\n        if x not in s:\n            n += 1\n        s.add(x)\n    return n", None),
    ("def f(xs, k):\n    x = [0]\n    s = []\n    for size in xs:\n        x.append(x[-1] + size)\n        s.append((x[-2], x[-1]))\n    return s", None),
    ("def f(xs, k):\n    try:\n        a, b = k\n    except TypeError:\n        a = b = k\n    return a, b", None),
    ("def f(xs, k):\n    d = {}\n    d[(1, 2)] = 3\n    try:\n        return d[(2, 1)]\n    except KeyError:\n        return d[(1, 2)]", None),
    ("def f(xs, k):\n    try:\n        try:\n            raise ValueError('x')\n        finally:\n            k = k + 1\n    except ValueError:\n        return k", None),
    # constructs added to the executor later (f-strings as data, slice assignment, one-key unpack, symbolic-index stores, Optional in tuples)
    ("def f(xs, k):\n    labels = [f'g{i}' for i in range(k)] + [f'{k:03d}|{len(xs)!r}']\n    return labels, [l[0] == 'g' for l in labels]", None),
    ("def f(xs, k):\n    l = list(xs) + ['a', 'b']\n    l[0:k] = 'o'\n    m = list(xs)\n    m[1:1] = [9, 9]\n    return l, m", None),
    ("def f(xs, k):\n    d = {x: 1 for x in xs}\n    try:\n        (only,) = d\n        return only\n    except ValueError:\n        return 'not one'", None),
    ("def f(xs, k):\n    l = [None] * 3\n    if xs:\n        l[min(k, 2)] = xs[0]\n        l[-1] = k\n    return l", None),
    ("def f(xs, k):\n    memo = {}\n    out = []\n    for x in xs:\n        try:\n            v = memo[x]\n        except KeyError:\n            v = memo[x] = (x, None if x % 2 else x // 2)\n        out.append(v[1] is None)\n    return out, sorted(memo)", None),
]

INPUTS = [((), 0), ((3,), 0), ((1, 2, 3), 1), ((4, 4, 2, 7), 2), ((-1, 5, 0, 2, 60, 3), 3), ((2, 2, 2), 2)]

SYMBOLIC_OK = {0, 1, 2, 3, 4, 5, 6, 7, 8, 9, 10, 13, 19, 23, 24, 28}  # snippets whose symbolic-mode result is compared


def cpython(src, xs, k):
    ns = {}
    exec(src, ns)
    try:
        return ("ok", ns["f"](xs, k))
    except Exception as e:  # noqa: BLE001
        return ("exc", type(e).__name__)


def norm(v):
    if isinstance(v, (list, tuple)):
        return [norm(x) for x in v]
    if isinstance(v, bool):
        return v
    return v


def _sum_instances(term, maxn):
    """ground unfoldings of the ghost fold for every SUM application inside `term`"""
    from pyvc.builtins_model import SUM_fn

    S = SUM_fn()
    out, seen, todo = [], set(), [term]
    while todo:
        t = todo.pop()
        if t.get_id() in seen:
            continue
        seen.add(t.get_id())
        if z3.is_app(t):
            if t.decl().eq(S):
                A = t.arg(0)
                out.append(S(A, 0) == 0)
                for j in range(maxn + 2):
                    out.append(S(A, j + 1) == S(A, j) + z3.Select(A, j))
            todo.extend(t.children())
        elif z3.is_quantifier(t):
            todo.append(t.body())
    return out


def concrete_value(it, v, pc, maxn):
    """read an interpreter value back as a python value: the value is the unique one the path
    condition (plus ground unfoldings of the ghost folds) admits"""
    if isinstance(v, SV):
        s = z3.Solver()
        for p in pc:
            s.add(p)
        for a in _sum_instances(v.t, maxn):
            s.add(a)
        if v.ty is TBool:
            s.push()
            s.add(v.t)
            r1 = s.check()
            s.pop()
            s.push()
            s.add(z3.Not(v.t))
            r2 = s.check()
            s.pop()
            if r1 == z3.sat and r2 != z3.sat:
                return True
            if r2 == z3.sat and r1 != z3.sat:
                return False
            raise Unsupported(f"readback of bool not determined ({r1}, {r2})")
        if v.ty is TInt:
            if s.check() != z3.sat:
                raise Unsupported("readback: solver did not return a model")
            val = s.model().eval(v.t, model_completion=True)
            s.add(v.t != val)
            if s.check() != z3.unsat:
                raise Unsupported("readback of int not determined")
            return val.as_long()
        raise Unsupported("readback type")
    if isinstance(v, (SymSeq, SymList)):
        n = v.length if isinstance(v.length, int) else concrete_value(it, SV(v.length, TInt), pc, maxn)
        return [concrete_value(it, it.lift(z3.simplify(z3.Select(v.arr, i)), v.ety), pc, maxn) for i in range(n)]
    if isinstance(v, (list, tuple)):
        return [concrete_value(it, x, pc, maxn) for x in v]
    return v


def run_pyvc(src, xs, k, symbolic):
    ctx = Ctx("crosscheck")
    it = Interp(Repo(), ctx)
    node = ast.parse(src).body[0]
    results = []
    while ctx.worklist:
        prefix = ctx.worklist.pop()
        ctx.reset_path(prefix)
        it.reset_path_state()
        env = Env(None)
        env.vars.update({n: b for n, b in it.builtins.items()})
        for nm in ("ValueError", "KeyError", "TypeError", "IndexError"):
            from pyvc.interp import ExcClass

            env.vars[nm] = ExcClass(nm)
        f = it.make_func(node, env, "snippet", "snippet.f")
        if symbolic:
            n = ctx.fresh("n", TInt)
            arr = z3.Const("xs", z3.ArraySort(z3.IntSort(), z3.IntSort()))
            ctx.assume(n == len(xs))
            for i, x in enumerate(xs):
                ctx.assume(z3.Select(arr, i) == x)
            kk = ctx.fresh("k", TInt)
            ctx.assume(kk == k)
            a_xs, a_k = SymSeq(n, arr, TInt, "tuple"), SV(kk, TInt)
        else:
            a_xs, a_k = xs, k
        try:
            r = it.call(f, [a_xs, a_k])
            s = z3.Solver()
            for p in ctx.pc:
                s.add(p)
            if s.check() == z3.sat:
                results.append(("ok", norm(concrete_value(it, r, list(ctx.pc), len(xs)))))
        except PathEnd:
            pass
        except PyRaise as e:
            s = z3.Solver()
            for p in ctx.pc:
                s.add(p)
            if s.check() == z3.sat:
                results.append(("exc", e.exc))
    return results


def repo_calls():
    """calls into real kernel functions, evaluated by /venv python and by the interpreter"""
    calls = []
    for sym in ("Z2", "Z4", "U1"):
        for a in (0, 1, 3, -2):
            for b in (0, 1, 2):
                calls.append(("sym", sym, "combine", [a, b]))
            calls.append(("sym", sym, "sign", [a % 4 if sym != "U1" else a]))
            calls.append(("sym", sym, "parity", [a]))
    for sym in ("Z2Z2", "U1U1"):
        for a in ((0, 1), (1, 1), (-2, 3)):
            calls.append(("sym", sym, "combine", [a, (1, 0)]))
            calls.append(("sym", sym, "sign", [a]))
            calls.append(("sym", sym, "parity", [a]))
    import itertools

    for par in ((1, 0, 1), (1, 1, 1, 0), (0, 0), ()):
        for perm in list(itertools.permutations(range(len(par))))[:8]:
            calls.append(("fn", "symmetries", "calc_phase_permutation", [par, perm]))
        calls.append(("fn", "symmetries", "calc_phase_permutation", [par, None]))
    calls.append(("fn", "abelian_core", "permuted", [("a", "b", "c", "d"), (3, 1, 0, 2)]))
    calls.append(("fn", "abelian_core", "without", [(5, 6, 7, 8), (1, 3)]))
    calls.append(("fn", "abelian_core", "replace_with_seq", [(1, 2, 3), 1, (9, 9)]))
    calls.append(("fn", "abelian_core", "calc_fuse_group_info", [((2, 0), (3,)), (False, True, False, True, True)]))
    # the reshape axis matcher (labels are built with f-strings and used as data): every shape over {1,2,3}
    # with <= 3 axes against every drop / merge target, plus requests that must raise
    import itertools as _it

    def targets(shape):
        out = set()
        ones = [i for i, d in enumerate(shape) if d == 1]
        for k in range(len(ones) + 1):
            for drop in _it.combinations(ones, k):
                kept = [d for i, d in enumerate(shape) if i not in drop]
                for cuts in range(2 ** max(len(kept) - 1, 0)):
                    t, cur = [], None
                    for i, d in enumerate(kept):
                        if cur is None:
                            cur = d
                        elif (cuts >> (i - 1)) & 1:
                            t.append(cur)
                            cur = d
                        else:
                            cur *= d
                    if cur is not None:
                        t.append(cur)
                    out.add(tuple(t))
        return sorted(out)

    for n in range(0, 4):
        for shape in _it.product((1, 2, 3), repeat=n):
            for t in targets(shape):
                calls.append(("fn", "abelian_core", "calc_reshape_args", [shape, t, (None,) * n]))
    for a in [((4, 3), (2, 2, 3), ((2, 2), None)), ((2, 6), (2, 2, 3), (None, (2, 3))), ((2, 3), (5,), (None, None)), ((6,), (4,), (None,)), ((2, 2), (2, 2), ((2, 2), None)), ((4,), (1, 2, 2, 1), ((2, 2),))]:
        calls.append(("fn", "abelian_core", "calc_reshape_args", list(a)))
    return calls


VENV_SCRIPT = r"""
import json, sys
import symmray
from symmray import symmetries, abelian_core
def tup(v):
    return tuple(tup(x) for x in v) if isinstance(v, list) else v
def js(v):
    if isinstance(v, (tuple, list)): return [js(x) for x in v]
    if isinstance(v, dict): return [[js(k), js(x)] for k, x in v.items()]
    return v
out = []
for c in json.load(sys.stdin):
    args = [tup(a) for a in c[3]]
    try:
        if c[0] == "sym":
            r = getattr(symmetries.get_symmetry(c[1]), c[2])(*args)
        else:
            f = getattr(getattr(symmray, c[1]), c[2])
            f = getattr(f, "__wrapped__", f)
            r = f(*args)
        out.append(["ok", js(r)])
    except Exception as e:
        out.append(["exc", type(e).__name__])
print(json.dumps(out))
"""


def js(v):
    if isinstance(v, (tuple, list)):
        return [js(x) for x in v]
    if isinstance(v, dict):
        return [[js(k), js(x)] for k, x in v.items()]
    return v


def run_repo_calls():
    calls = repo_calls()
    p = subprocess.run(["/venv/bin/python", "-c", VENV_SCRIPT], input=json.dumps(calls), capture_output=True, text=True, timeout=120)
    if p.returncode != 0:
        return 0, [f"venv side failed: {p.stderr[-400:]}"]
    want = json.loads(p.stdout.strip().splitlines()[-1])
    bad = []
    n = 0
    for c, w in zip(calls, want):
        ctx = Ctx("crosscheck")
        it = Interp(Repo(), ctx)

        def tup(v):
            return tuple(tup(x) for x in v) if isinstance(v, list) else v

        args = [tup(a) for a in c[3]]
        try:
            if c[0] == "sym":
                s = it.instantiate(it.get_class("symmetries", c[1]), [], {})
                r = ("ok", js(it.call(it.getattr(s, c[2]), args)))
            else:
                r = ("ok", js(it.call(it.module_lookup(c[1], c[2]), args)))
        except PyRaise as e:
            r = ("exc", e.exc)
        n += 1
        if list(r) != w:
            bad.append(f"{c}: pyvc {r} != real {w}")
    return n, bad


def main():
    n = 0
    bad = []
    skipped = []
    for idx, (src, inputs) in enumerate(SNIPPETS):
        for xs, k in inputs or INPUTS:
            want = cpython(src, xs, k)
            want = (want[0], norm(json.loads(json.dumps(want[1]))) if want[0] == "ok" else want[1])
            for symbolic in (False, True):
                if symbolic and idx not in SYMBOLIC_OK:
                    continue
                try:
                    got = run_pyvc(src, xs, k, symbolic)
                except Unsupported as e:
                    if symbolic:
                        skipped.append(f"snippet {idx} {xs},{k}: {e}")
                        continue  # construct outside the symbolic subset: reported as unsupported, never guessed
                    bad.append(f"snippet {idx} {xs},{k}: concrete mode unsupported: {e}")
                    continue
                n += 1
                got = [(g[0], json.loads(json.dumps(g[1]))) for g in got]
                if len(got) != 1 or list(got[0]) != list(want):
                    bad.append(f"snippet {idx} ({'symbolic' if symbolic else 'concrete'}) xs={xs} k={k}: pyvc {got} != CPython {want}")
    n2, bad2 = run_repo_calls()
    bad += bad2
    print(json.dumps({"snippet_runs": n, "repo_calls": n2, "symbolic_skipped": len(skipped), "skipped_examples": skipped[:5], "mismatches": bad[:20]}))
    return 0 if not bad else 3


if __name__ == "__main__":
    sys.exit(main())
