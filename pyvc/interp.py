"""Path-splitting symbolic interpreter for the Python subset used by symmray's kernel.

Executes the *real* function bodies (ast from /repo's working tree) on symbolic values.
Anything outside the subset raises `Unsupported` (the task is then UNDECIDED, never a
violation).
"""

import ast
import operator as _op

import z3

from .core import (
    SV,
    Ctx,
    KeyIter,
    PathEnd,
    PyRaise,
    SymDict,
    SymList,
    SymObj,
    SymSeq,
    SymSet,
    T,
    TBool,
    TInt,
    TOpaque,
    TReal,
    TSeqT,
    TStruct,
    Unsupported,
    exc_matches,
)

# ----------------------------------------------------------------------------
# interpreter-level values


class FuncVal:
    def __init__(self, node, env, module, qualname=None, owner=None, defaults=None, kwdefaults=None):
        self.node = node
        self.env = env
        self.module = module
        self.qualname = qualname or getattr(node, "name", "<lambda>")
        self.owner = owner
        self.defaults = defaults or []
        self.kwdefaults = kwdefaults or {}
        self.is_gen = any(isinstance(n, (ast.Yield, ast.YieldFrom)) for n in ast.walk(node)) if not isinstance(node, ast.Lambda) else False

    def __repr__(self):
        return f"<fn {self.qualname}>"


class BoundMethod:
    def __init__(self, func, self_val):
        self.func = func
        self.self_val = self_val


class BuiltinVal:
    def __init__(self, name, fn):
        self.name = name
        self.fn = fn

    def __repr__(self):
        return f"<builtin {self.name}>"


class PropertyVal:
    def __init__(self, fget):
        self.fget = fget


class StaticVal:
    def __init__(self, f):
        self.f = f


class ClassMethodVal:
    def __init__(self, f):
        self.f = f


class ClassVal:
    def __init__(self, interp, module, name, node):
        self.interp = interp
        self.module = module
        self.name = name
        self.node = node
        self._members = None
        self._bases = None

    @property
    def bases(self):
        if self._bases is None:
            self._bases = []
            for b in self.node.bases:
                try:
                    v = self.interp.eval_expr(b, self.interp.module_env(self.module))
                except (Unsupported, PyRaise):
                    v = None
                if isinstance(v, ClassVal):
                    self._bases.append(v)
        return self._bases

    @property
    def members(self):
        if self._members is None:
            self._members = {}
            env = Env(self.interp.module_env(self.module))
            for node in self.node.body:
                if isinstance(node, ast.FunctionDef):
                    f = self.interp.make_func(node, env, self.module, f"{self.module}.{self.name}.{node.name}", owner=self)
                    decs = [ast.unparse(d) for d in node.decorator_list]
                    if "property" in decs:
                        f = PropertyVal(f)
                    elif "staticmethod" in decs:
                        f = StaticVal(f)
                    elif "classmethod" in decs:
                        f = ClassMethodVal(f)
                    self._members[node.name] = f
                    env.vars[node.name] = f
                elif isinstance(node, ast.Assign) and len(node.targets) == 1 and isinstance(node.targets[0], ast.Name):
                    try:
                        v = self.interp.eval_expr(node.value, env)
                    except (Unsupported, PyRaise):
                        v = _Unevaluated(node.value)
                    self._members[node.targets[0].id] = v
                    env.vars[node.targets[0].id] = v
        return self._members

    def mro(self):
        out = [self]
        for b in self.bases:
            for c in b.mro():
                if c not in out:
                    out.append(c)
        return out

    def lookup(self, name, after=None):
        seq = self.mro()
        if after is not None:
            seq = seq[seq.index(after) + 1 :]
        for c in seq:
            if name in c.members:
                return c.members[name], c
        return None, None

    def is_subclass(self, other):
        return other in self.mro()

    def __repr__(self):
        return f"<class {self.module}.{self.name}>"


class _Unevaluated:
    def __init__(self, node):
        self.node = node


class ModuleVal:
    def __init__(self, name, attrs=None, getter=None):
        self.name = name
        self.attrs = attrs or {}
        self.getter = getter

    def get(self, name):
        if name in self.attrs:
            return self.attrs[name]
        if self.getter:
            return self.getter(name)
        raise Unsupported(f"attribute {self.name}.{name}")


class ExcClass:
    def __init__(self, name):
        self.name = name

    def __repr__(self):
        return f"<exc {self.name}>"


class ExcInst:
    def __init__(self, name, args=()):
        self.name = name
        self.args = args


class SuperVal:
    def __init__(self, owner, self_val):
        self.owner = owner
        self.self_val = self_val


class SliceVal:
    def __init__(self, lo, hi, step):
        self.lo, self.hi, self.step = lo, hi, step


class GenVal:
    """An un-started generator function call (eagerly expandable)."""

    def __init__(self, func, args, kwargs):
        self.func, self.args, self.kwargs = func, args, kwargs


class Env:
    def __init__(self, parent=None, vars=None):
        self.parent = parent
        self.vars = vars if vars is not None else {}
        self.globals_decl = set()

    def lookup(self, name):
        e = self
        while e is not None:
            if isinstance(e, ModuleEnv):
                return e.lookup(name)
            if name in e.vars:
                return e.vars[name]
            e = e.parent
        raise KeyError(name)


class ModuleEnv(Env):
    def __init__(self, interp, modname):
        super().__init__(None)
        self.interp = interp
        self.modname = modname

    def lookup(self, name):
        return self.interp.module_lookup(self.modname, name)


class OpaqueText:
    """text of an f-string with a symbolic part: may be stored / raised, never inspected"""

    def __repr__(self):
        return "<text with symbolic parts>"


class ReturnEx(Exception):
    def __init__(self, value):
        self.value = value


class BreakEx(Exception):
    pass


class ContinueEx(Exception):
    pass


class Frame:
    def __init__(self, func, self_val=None):
        self.func = func
        self.self_val = self_val
        self.yields = []
        self.loop_ordinal = 0


_EXC_NAMES = [
    "ValueError",
    "KeyError",
    "TypeError",
    "AttributeError",
    "IndexError",
    "NotImplementedError",
    "ImportError",
    "Exception",
    "RuntimeError",
    "StopIteration",
    "AssertionError",
    "ZeroDivisionError",
]


def is_sym(v):
    return isinstance(v, (SV, SymSeq, SymList, SymDict, SymObj, SymSet, KeyIter))


def I(v):
    """python int/bool or SV -> z3 Int term"""
    if isinstance(v, bool):
        return z3.IntVal(1 if v else 0)
    if isinstance(v, int):
        return z3.IntVal(v)
    if isinstance(v, SV):
        if v.ty is TInt:
            return v.t
        if v.ty is TBool:
            return z3.If(v.t, z3.IntVal(1), z3.IntVal(0))
    if z3.is_expr(v):
        return v
    raise Unsupported(f"not an int: {v!r}")


def R(v):
    if isinstance(v, bool):
        return z3.RealVal(1 if v else 0)
    if isinstance(v, (int, float)):
        return z3.RealVal(v)
    if isinstance(v, SV):
        if v.ty is TReal:
            return v.t
        if v.ty is TInt:
            return z3.ToReal(v.t)
        if v.ty is TBool:
            return z3.If(v.t, z3.RealVal(1), z3.RealVal(0))
    raise Unsupported(f"not a real: {v!r}")


def wrap(term, ty):
    return SV(term, ty)


def simp(v):
    """Collapse SV with literal value back to python."""
    if isinstance(v, SV):
        t = z3.simplify(v.t)
        if v.ty is TInt and z3.is_int_value(t):
            return t.as_long()
        if v.ty is TBool:
            if z3.is_true(t):
                return True
            if z3.is_false(t):
                return False
        return SV(t, v.ty)
    return v


class Interp:
    def __init__(self, repo, ctx: Ctx):
        self.repo = repo
        self.ctx = ctx
        self.module_envs = {}
        self.globals = {}  # (module, name) -> value  [mutable module state; per path]
        self.classes = {}
        self.frames = []
        self.term_mode = 0
        self.struct_classes = {}  # class qualname -> TStruct
        self.summaries = {}  # qualname -> python callable(interp, args, kwargs)
        self.externals = {}  # dotted name -> python callable(interp, args, kwargs)
        self.loop_specs = {}  # (func qualname, ordinal) -> LoopSpec
        self.on_yield = None
        self.call_depth = 0
        self.debug_flag = False
        self.trace_calls = []
        self._builtin_env = None
        from . import builtins_model

        self.bm = builtins_model
        self.builtins = builtins_model.make_builtins(self)

    # ------------------------------------------------------------------ modules
    def module_env(self, modname):
        if modname not in self.module_envs:
            self.module_envs[modname] = ModuleEnv(self, modname)
        return self.module_envs[modname]

    def reset_path_state(self):
        self.globals = {}
        self.frames = []
        self.term_mode = 0
        self.call_depth = 0
        self.trace_calls = []

    def get_class(self, modname, name):
        key = (modname, name)
        if key not in self.classes:
            mod = self.repo.module(modname)
            self.classes[key] = ClassVal(self, modname, name, mod.classes[name])
        return self.classes[key]

    def module_lookup(self, modname, name):
        if (modname, name) in self.globals:
            return self.globals[(modname, name)]
        mod = self.repo.module(modname)
        if name in mod.functions:
            node = mod.functions[name]
            return self.make_func(node, self.module_env(modname), modname, f"{modname}.{name}")
        if name in mod.classes:
            return self.get_class(modname, name)
        if name in mod.assigns:
            if name == "DEBUG":
                return self.debug_flag
            v = self.eval_expr(mod.assigns[name], self.module_env(modname))
            self.globals[(modname, name)] = v
            return v
        if name in mod.imports:
            m, n = mod.imports[name]
            rel = m.startswith(".")
            m = m.lstrip(".")
            if rel or self.repo.has_module(m) and m in ("symmetries",):
                if n is None:
                    raise Unsupported(f"import {m}")
                if m == "" or not self.repo.has_module(m):
                    raise Unsupported(f"relative import {m}.{n}")
                if m == "utils" and n == "DEBUG":
                    return self.debug_flag
                return self.module_lookup(m, n)
            full = m if n is None else f"{m}.{n}"
            return self.external_module(full)
        if name in self.builtins:
            return self.builtins[name]
        if name in _EXC_NAMES:
            return ExcClass(name)
        raise PyRaise("NameError", name)

    def external_module(self, full):
        if full in self.externals:
            # `from pkg.mod import fn` of a dependency: a contract-level summary registered under the dotted name
            return BuiltinVal(full, self.externals[full])
        if full in ("autoray",):
            return ModuleVal("ar", getter=lambda nm: self._ext(f"ar.{nm}"))
        if full in self.bm.MODULES:
            return self.bm.MODULES[full](self)
        head = full.split(".")[0]
        if head in self.bm.MODULES and "." in full:
            return self.bm.MODULES[head](self).get(full.split(".", 1)[1])
        return ModuleVal(full, getter=lambda nm: self._ext(f"{full}.{nm}"))

    def _ext(self, dotted):
        if dotted in self.externals:
            return BuiltinVal(dotted, self.externals[dotted])
        raise Unsupported(f"external {dotted}")

    # ------------------------------------------------------------------ functions
    def make_func(self, node, env, module, qualname=None, owner=None):
        args = node.args
        defaults = []
        for d in args.defaults:
            try:
                defaults.append(self.eval_expr(d, env))
            except (Unsupported, PyRaise) as e:
                defaults.append(_Unevaluated(d))
        kwdefaults = {}
        for a, d in zip(args.kwonlyargs, args.kw_defaults):
            if d is not None:
                try:
                    kwdefaults[a.arg] = self.eval_expr(d, env)
                except (Unsupported, PyRaise):
                    kwdefaults[a.arg] = _Unevaluated(d)
        return FuncVal(node, env, module, qualname, owner, defaults, kwdefaults)

    def bind_args(self, f, args, kwargs):
        a = f.node.args
        params = [p.arg for p in a.posonlyargs + a.args]
        env = Env(f.env)
        args = list(args)
        kwargs = dict(kwargs)
        nd = len(f.defaults)
        for i, p in enumerate(params):
            if i < len(args):
                env.vars[p] = args[i]
            elif p in kwargs:
                env.vars[p] = kwargs.pop(p)
            else:
                j = i - (len(params) - nd)
                if j < 0:
                    raise PyRaise("TypeError", f"missing argument {p} in call to {f.qualname}")
                d = f.defaults[j]
                if isinstance(d, _Unevaluated):
                    raise Unsupported(f"default of {p} in {f.qualname} not evaluable")
                env.vars[p] = d
        extra = args[len(params) :]
        if a.vararg:
            env.vars[a.vararg.arg] = self._pack_varargs(extra)
        elif extra:
            raise PyRaise("TypeError", f"too many positional arguments for {f.qualname}")
        for p in a.kwonlyargs:
            if p.arg in kwargs:
                env.vars[p.arg] = kwargs.pop(p.arg)
            elif p.arg in f.kwdefaults:
                env.vars[p.arg] = f.kwdefaults[p.arg]
            else:
                raise PyRaise("TypeError", f"missing kw-only argument {p.arg}")
        if a.kwarg:
            env.vars[a.kwarg.arg] = kwargs
        elif kwargs:
            raise PyRaise("TypeError", f"unexpected keyword arguments {list(kwargs)} for {f.qualname}")
        return env

    def _pack_varargs(self, extra):
        # a single StarSeq marker carries a symbolic-length *args
        if len(extra) == 1 and isinstance(extra[0], StarSeq):
            return extra[0].seq
        if any(isinstance(e, StarSeq) for e in extra):
            raise Unsupported("mixing symbolic *args with positional arguments")
        return tuple(extra)

    def call(self, fv, args=(), kwargs=None):
        kwargs = kwargs or {}
        if isinstance(fv, BoundMethod):
            return self.call(fv.func, [fv.self_val] + list(args), kwargs)
        if isinstance(fv, BuiltinVal):
            return fv.fn(self, list(args), kwargs)
        if isinstance(fv, FuncVal):
            return self.call_func(fv, args, kwargs)
        if isinstance(fv, ClassVal):
            return self.instantiate(fv, args, kwargs)
        if isinstance(fv, ExcClass):
            return ExcInst(fv.name, tuple(args))
        if isinstance(fv, StaticVal):
            return self.call(fv.f, args, kwargs)
        if isinstance(fv, SymObj):
            m = self.getattr(fv, "__call__")
            return self.call(m, args, kwargs)
        if callable(fv) and not is_sym(fv):
            # plain python callable used as ghost helper
            return fv(*args, **kwargs)
        raise Unsupported(f"call of {fv!r}")

    def call_func(self, f, args, kwargs):
        if f.qualname in self.summaries:
            self.trace_calls.append(f.qualname)
            return self.summaries[f.qualname](self, list(args), dict(kwargs))
        if any(isinstance(a, StarSeq) for a in args) and not f.node.args.vararg:
            raise Unsupported("symbolic *args to function without *args")
        if f.is_gen:
            return GenVal(f, list(args), dict(kwargs))
        env = self.bind_args(f, args, kwargs)
        return self.run_body(f, env)

    def run_body(self, f, env, collect_yields=False):
        self_val = None
        a = f.node.args
        params = a.posonlyargs + a.args
        if f.owner is not None and params:
            self_val = env.vars.get(params[0].arg)
        frame = Frame(f, self_val)
        self.frames.append(frame)
        self.call_depth += 1
        if self.call_depth > 60:
            raise Unsupported("call depth > 60 (recursion?)")
        try:
            if isinstance(f.node, ast.Lambda):
                return self.eval_expr(f.node.body, env)
            if self.term_mode:
                return self.exec_block_term(f.node.body, env)
            try:
                self.exec_block(f.node.body, env)
            except ReturnEx as r:
                if collect_yields:
                    return frame.yields
                return r.value
            if collect_yields:
                return frame.yields
            return None
        finally:
            self.frames.pop()
            self.call_depth -= 1

    def expand_generator(self, g):
        """Eagerly run a generator function, returning the python list of yielded values."""
        env = self.bind_args(g.func, g.args, g.kwargs)
        return self.run_body(g.func, env, collect_yields=True)

    def instantiate(self, cls, args, kwargs):
        q = f"{cls.module}.{cls.name}"
        if q in self.summaries:
            return self.summaries[q](self, list(args), dict(kwargs))
        obj = SymObj(cls, tag=self.ctx.fresh_name(cls.name))
        init, _ = cls.lookup("__init__")
        if init is not None:
            self.call(init, [obj] + list(args), kwargs)
        if q in self.struct_classes:
            return self.obj_to_struct(obj, self.struct_classes[q])
        return obj

    def obj_to_struct(self, obj, st):
        terms = []
        for fname, fty in st.fields:
            if fname not in obj.fields:
                raise Unsupported(f"struct field {fname} not set by __init__ of {st.name}")
            terms.append(self.unwrap(obj.fields[fname], fty))
        return SV(st.make(*terms), st)

    # ------------------------------------------------------------------ conversions
    def unwrap(self, v, ty):
        """interpreter value -> z3 term of type ty"""
        if ty is TInt:
            return I(v)
        if ty is TReal:
            return R(v)
        if ty is TBool:
            b = self.truth(v)
            return z3.BoolVal(b) if isinstance(b, bool) else b
        if isinstance(ty, TStruct) and ty.name == "OptInt":
            if v is None:
                return ty.make(z3.BoolVal(True), z3.IntVal(0))
            if isinstance(v, SV) and v.ty == ty:
                return v.t
            return ty.make(z3.BoolVal(False), I(v))
        if isinstance(ty, (TStruct, TOpaque)):
            if isinstance(v, SV) and v.ty == ty:
                return v.t
            if isinstance(ty, TStruct) and isinstance(v, tuple) and len(v) == len(ty.fields):
                return ty.make(*[self.unwrap(x, ft) for x, (_, ft) in zip(v, ty.fields)])
            if isinstance(ty, TStruct) and isinstance(v, SliceVal) and ty.name == "Slice":
                return ty.make(I(v.lo), I(v.hi))
            if isinstance(ty, TStruct) and isinstance(v, SymObj) and ty.cls and v.cls and f"{v.cls.module}.{v.cls.name}" == ty.cls:
                return self.obj_to_struct(v, ty).t
            raise Unsupported(f"cannot convert {v!r} to {ty}")
        if isinstance(ty, TSeqT):
            if isinstance(v, (SymSeq, SymList)):
                return v.arr
            if isinstance(v, (tuple, list)):
                arr = z3.K(z3.IntSort(), self.default_term(ty.elem))
                for i, x in enumerate(v):
                    arr = z3.Store(arr, i, self.unwrap(x, ty.elem))
                return arr
            if isinstance(v, SV) and v.ty == ty:
                return v.t
            raise Unsupported(f"cannot convert {v!r} to {ty}")
        raise Unsupported(f"unwrap to {ty}")

    def default_term(self, ty):
        if ty is TInt:
            return z3.IntVal(0)
        if ty is TBool:
            return z3.BoolVal(False)
        if ty is TReal:
            return z3.RealVal(0)
        return z3.Const(f"dflt_{ty}", ty.sort())

    def lift(self, term, ty):
        """z3 term -> interpreter value"""
        if isinstance(ty, TStruct) and ty.name.startswith("Tup") and ty.cls is None:
            return tuple(self.lift(ty.get(term, f), ft) for f, ft in ty.fields)
        if isinstance(ty, TStruct) and ty.name == "Slice":
            return SliceVal(SV(ty.get(term, "lo"), TInt), SV(ty.get(term, "hi"), TInt), None)
        if isinstance(ty, TStruct) and ty.name == "OptInt":
            # Optional[int] stored in a symbolic container: reading it splits the path on "is None"
            if self.term_mode:
                raise Unsupported("optional value read under a bound variable")
            if self.ctx.branch(z3.simplify(ty.get(term, "isnone")), "optnone"):
                return None
            return simp(SV(ty.get(term, "val"), TInt))
        return simp(SV(term, ty))

    def type_of(self, v):
        if isinstance(v, bool):
            return TBool
        if isinstance(v, int):
            return TInt
        if isinstance(v, float):
            return TReal
        if isinstance(v, SV):
            return v.ty
        if isinstance(v, SliceVal):
            return self.bm.SLICE
        if isinstance(v, tuple):
            return self.bm.tuple_type([self.type_of(x) for x in v])
        if isinstance(v, (SymSeq, SymList)):
            return TSeqT(v.ety)
        raise Unsupported(f"no type for {v!r}")

    def truth(self, v):
        """python bool or z3 Bool"""
        if isinstance(v, SV):
            if v.ty is TBool:
                return v.t
            if v.ty is TInt:
                return v.t != 0
            if v.ty is TReal:
                return v.t != 0
            return True
        if isinstance(v, (SymSeq, SymList)):
            if isinstance(v.length, int):
                return v.length != 0
            return v.length != 0
        if isinstance(v, SymDict):
            return self.bm.dict_nonempty(self, v)
        if isinstance(v, SymSet):
            w = z3.Const(self.ctx.fresh_name("swit"), v.kty.sort())
            k = z3.Const(self.ctx.fresh_name("sk"), v.kty.sort())
            self.ctx.assume(z3.ForAll([k], z3.Implies(z3.Select(v.has, k), z3.Select(v.has, w))))
            return z3.Select(v.has, w)
        if isinstance(v, (SymObj, FuncVal, ClassVal, BoundMethod, BuiltinVal)):
            return True
        if z3.is_expr(v):
            return v
        return bool(v)

    def branch_on(self, v, tag="if"):
        t = self.truth(v)
        if isinstance(t, bool):
            return t
        if self.term_mode:
            raise Unsupported("path branch under a bound variable")
        return self.ctx.branch(t, tag)

    # ------------------------------------------------------------------ attribute access
    def getattr(self, obj, name):
        if isinstance(obj, SymObj):
            if name in obj.fields:
                return obj.fields[name]
            if name == "__class__":
                return obj.cls
            if name == "__new__":
                return BuiltinVal("__new__", lambda it, a, k: SymObj(a[0], tag=it.ctx.fresh_name(a[0].name)))
            if obj.cls is not None:
                m, owner = obj.cls.lookup(name)
                if m is not None:
                    return self._bind(m, obj)
            raise PyRaise("AttributeError", name)
        if isinstance(obj, SV) and isinstance(obj.ty, TStruct):
            st = obj.ty
            if st.has(name):
                return self.lift(st.get(obj.t, name), st.ftype(name))
            if st.cls:
                modname, clsname = st.cls.split(".")
                cls = self.get_class(modname, clsname)
                m, owner = cls.lookup(name)
                if m is not None:
                    return self._bind(m, obj)
            raise PyRaise("AttributeError", name)
        if isinstance(obj, SuperVal):
            cls = obj.self_val.cls if isinstance(obj.self_val, SymObj) else None
            if cls is None:
                raise Unsupported("super() on non-object")
            m, owner = cls.lookup(name, after=obj.owner)
            if m is None:
                raise PyRaise("AttributeError", name)
            return self._bind(m, obj.self_val)
        if isinstance(obj, ClassVal):
            if name == "__name__":
                return obj.name
            if name == "__slots__":
                m, _ = obj.lookup(name)
                return m
            m, owner = obj.lookup(name)
            if m is None:
                raise PyRaise("AttributeError", name)
            if isinstance(m, StaticVal):
                return m.f
            if isinstance(m, ClassMethodVal):
                return BoundMethod(m.f, obj)
            if isinstance(m, _Unevaluated):
                raise Unsupported(f"class attribute {obj.name}.{name}")
            return m
        if isinstance(obj, ModuleVal):
            return obj.get(name)
        if isinstance(obj, SliceVal):
            return {"start": obj.lo, "stop": obj.hi, "step": obj.step}[name]
        if isinstance(obj, FuncVal) and name == "dispatch":
            # functools.singledispatch (decorator dropped): dispatch(cls) of the generic function is the
            # base implementation unless the contract registers another one in `self.dispatch_table`
            table = getattr(self, "dispatch_table", {})
            return BuiltinVal("dispatch", lambda it, a, k: table.get((obj.qualname, getattr(a[0], "name", None)), obj))
        m = self.bm.get_method(self, obj, name)
        if m is not None:
            return m
        raise Unsupported(f"attribute {name} of {type(obj).__name__}")

    def _bind(self, m, obj):
        if isinstance(m, PropertyVal):
            return self.call(m.fget, [obj])
        if isinstance(m, StaticVal):
            return m.f
        if isinstance(m, ClassMethodVal):
            return BoundMethod(m.f, obj.cls if isinstance(obj, SymObj) else obj)
        if isinstance(m, FuncVal):
            return BoundMethod(m, obj)
        if isinstance(m, _Unevaluated):
            raise Unsupported("unevaluated class attribute")
        return m

    def setattr(self, obj, name, value):
        if isinstance(obj, SymObj):
            obj.fields[name] = value
            return
        raise Unsupported(f"setattr on {type(obj).__name__}")

    # ------------------------------------------------------------------ statements
    def exec_block(self, stmts, env):
        for s in stmts:
            self.exec_stmt(s, env)

    def exec_stmt(self, s, env):
        m = getattr(self, "st_" + type(s).__name__, None)
        if m is None:
            raise Unsupported(f"statement {type(s).__name__} (line {s.lineno})")
        return m(s, env)

    def st_Expr(self, s, env):
        if isinstance(s.value, ast.Constant) and isinstance(s.value.value, str):
            return
        self.eval_expr(s.value, env)

    def st_Pass(self, s, env):
        pass

    def st_Return(self, s, env):
        raise ReturnEx(self.eval_expr(s.value, env) if s.value is not None else None)

    def st_Break(self, s, env):
        raise BreakEx()

    def st_Continue(self, s, env):
        raise ContinueEx()

    def st_Global(self, s, env):
        env.globals_decl.update(s.names)

    def st_Import(self, s, env):
        for a in s.names:
            env.vars[a.asname or a.name.split(".")[0]] = self.external_module(a.name)

    def st_ImportFrom(self, s, env):
        m = (s.module or "")
        if s.level > 0 or m.startswith("symmray"):
            m = m.replace("symmray.", "").replace("symmray", "")
            for a in s.names:
                env.vars[a.asname or a.name] = self.module_lookup(m, a.name)
        else:
            for a in s.names:
                env.vars[a.asname or a.name] = self.external_module(f"{m}.{a.name}")

    def st_FunctionDef(self, s, env):
        env.vars[s.name] = self.make_func(s, env, self.frames[-1].func.module if self.frames else "?", s.name)

    def st_Assert(self, s, env):
        c = self.eval_expr(s.test, env)
        if not self.branch_on(c, "assert"):
            raise PyRaise("AssertionError", "", s.lineno)

    def st_Raise(self, s, env):
        if s.exc is None:
            raise Unsupported("bare raise")
        e = self.eval_expr(s.exc, env)
        if isinstance(e, ExcClass):
            raise PyRaise(e.name, "", s.lineno)
        if isinstance(e, ExcInst):
            raise PyRaise(e.name, e.args, s.lineno)
        raise Unsupported("raise of non-exception")

    def st_Assign(self, s, env):
        v = self.eval_expr(s.value, env)
        for t in s.targets:
            self.assign(t, v, env)

    def st_AnnAssign(self, s, env):
        if s.value is not None:
            self.assign(s.target, self.eval_expr(s.value, env), env)

    def st_AugAssign(self, s, env):
        cur = self.eval_expr(_as_load(s.target), env)
        rhs = self.eval_expr(s.value, env)
        v = self.binop(type(s.op), cur, rhs)
        self.assign(s.target, v, env)

    def st_Delete(self, s, env):
        for t in s.targets:
            if isinstance(t, ast.Subscript):
                obj = self.eval_expr(t.value, env)
                key = self.eval_expr(t.slice, env)
                self.bm.delitem(self, obj, key)
            elif isinstance(t, ast.Name):
                env.vars.pop(t.id, None)
            else:
                raise Unsupported("del target")

    def st_If(self, s, env):
        c = self.eval_expr(s.test, env)
        if self.branch_on(c, f"L{s.lineno}"):
            self.exec_block(s.body, env)
        else:
            self.exec_block(s.orelse, env)

    def st_Try(self, s, env):
        try:
            try:
                self.exec_block(s.body, env)
            except PyRaise as e:
                for h in s.handlers:
                    names = []
                    if h.type is None:
                        names = ["BaseException"]
                    elif isinstance(h.type, ast.Tuple):
                        names = [x.id if isinstance(x, ast.Name) else x.attr for x in h.type.elts]
                    elif isinstance(h.type, ast.Name):
                        names = [h.type.id]
                    elif isinstance(h.type, ast.Attribute):
                        names = [h.type.attr]
                    if any(exc_matches(e.exc, n) or (n == "LinAlgError") and False for n in names):
                        if h.name:
                            env.vars[h.name] = ExcInst(e.exc, e.msg)
                        self.exec_block(h.body, env)
                        break
                else:
                    raise
            else:
                self.exec_block(s.orelse, env)
        finally:
            # note: PathEnd / Unsupported also pass through here; running the
            # finally-body for them is harmless (the path is discarded anyway)
            if s.finalbody:
                import sys

                et = sys.exc_info()[0]
                if et is None or issubclass(et, (PyRaise, ReturnEx, BreakEx, ContinueEx)):
                    self.exec_block(s.finalbody, env)

    def st_With(self, s, env):
        raise Unsupported("with statement")

    def st_While(self, s, env):
        frame = self.frames[-1]
        ordinal = self.loop_ordinal(frame.func, s)
        spec = self.loop_specs.get((frame.func.qualname, ordinal))
        if spec is None:
            # unroll while concrete
            n = 0
            nsym = 0
            while True:
                c = self.truth(self.eval_expr(s.test, env))
                if not isinstance(c, bool):
                    # opt-in (tasks whose loops are bounded by the rank of concrete-length tuples): split the
                    # path on the symbolic condition, with a hard bound on the number of symbolic iterations
                    bound = getattr(self, "while_unroll_bound", 0)
                    if not bound or self.term_mode:
                        raise Unsupported(f"while loop #{ordinal} of {frame.func.qualname} with symbolic condition needs an invariant")
                    nsym += 1
                    if nsym > bound:
                        raise Unsupported(f"while loop #{ordinal} of {frame.func.qualname}: more than {bound} iterations with a symbolic condition")
                    c = self.ctx.branch(c.t if isinstance(c, SV) else c, f"L{s.lineno}w")
                if not c:
                    break
                n += 1
                if n > 2000:
                    raise Unsupported("unbounded concrete while loop")
                try:
                    self.exec_block(s.body, env)
                except BreakEx:
                    return
                except ContinueEx:
                    continue
            self.exec_block(s.orelse, env)
            return
        self.bm.run_invariant_loop(self, s, env, spec, frame, ordinal, kind="while")

    def st_For(self, s, env):
        frame = self.frames[-1]
        ordinal = self.loop_ordinal(frame.func, s)
        spec = self.loop_specs.get((frame.func.qualname, ordinal))
        it = self.eval_expr(s.iter, env)
        if isinstance(it, SymDict):
            it = KeyIter(it.has, it.kty, it.val, it.vty, "keys")  # iterating a dict iterates its keys
        items = self.bm.concrete_iter(self, it)
        if items is not None:
            for x in items:
                self.assign(s.target, x, env)
                try:
                    self.exec_block(s.body, env)
                except BreakEx:
                    return
                except ContinueEx:
                    continue
            self.exec_block(s.orelse, env)
            return
        if spec is None:
            raise Unsupported(f"for loop #{ordinal} of {frame.func.qualname} over symbolic iterable needs an invariant (line {s.lineno})")
        self.bm.run_invariant_loop(self, s, env, spec, frame, ordinal, kind="for", iterable=it)

    def loop_ordinal(self, func, stmt):
        """syntactic ordinal (source order) of a loop statement within its function;
        loops of nested function definitions are not counted"""
        cache = getattr(func, "_loop_ids", None)
        if cache is None:
            cache = {}

            def walk(node):
                for ch in ast.iter_child_nodes(node):
                    if isinstance(ch, (ast.FunctionDef, ast.Lambda, ast.ClassDef)):
                        continue
                    if isinstance(ch, (ast.For, ast.While)):
                        cache[id(ch)] = len(cache)
                    walk(ch)

            walk(func.node)
            func._loop_ids = cache
        return cache[id(stmt)]

    # ------------------------------------------------------------------ term-mode (if-converted) execution
    def exec_block_term(self, stmts, env):
        """Execute a statement list under a bound variable: only Assign / If / Return /
        Expr-docstring; conditionals become ite terms."""
        for idx, s in enumerate(stmts):
            if isinstance(s, ast.Expr) and isinstance(s.value, ast.Constant):
                continue
            if isinstance(s, ast.Return):
                return self.eval_expr(s.value, env) if s.value is not None else None
            if isinstance(s, ast.Assign):
                v = self.eval_expr(s.value, env)
                for t in s.targets:
                    self.assign(t, v, env)
                continue
            if isinstance(s, ast.If):
                c = self.truth(self.eval_expr(s.test, env))
                rest = stmts[idx + 1 :]
                if isinstance(c, bool):
                    return self.exec_block_term((s.body if c else s.orelse) + rest, env)
                e1 = Env(env.parent, dict(env.vars))
                e2 = Env(env.parent, dict(env.vars))
                v1 = self.exec_block_term(s.body + rest, e1)
                v2 = self.exec_block_term(s.orelse + rest, e2)
                return self.ite(c, v1, v2)
            raise Unsupported(f"statement {type(s).__name__} under a bound variable (line {s.lineno})")
        return None

    def ite(self, c, a, b):
        if isinstance(c, bool):
            return a if c else b
        if a is b:
            return a
        if isinstance(a, tuple) and isinstance(b, tuple) and len(a) == len(b):
            return tuple(self.ite(c, x, y) for x, y in zip(a, b))
        if isinstance(a, (int, bool, SV)) and isinstance(b, (int, bool, SV)):
            ta, tb = self.type_of(a), self.type_of(b)
            if ta is TBool and tb is TBool:
                return simp(SV(z3.If(c, self.unwrap(a, TBool), self.unwrap(b, TBool)), TBool))
            if ta in (TInt, TBool) and tb in (TInt, TBool):
                return simp(SV(z3.If(c, I(a), I(b)), TInt))
            if TReal in (ta, tb):
                return simp(SV(z3.If(c, R(a), R(b)), TReal))
            if ta == tb:
                return SV(z3.If(c, a.t, b.t), ta)
        if a is None and b is None:
            return None
        raise Unsupported(f"ite of {a!r} / {b!r}")

    # ------------------------------------------------------------------ assignment
    def assign(self, target, v, env):
        if isinstance(target, ast.Name):
            if target.id in env.globals_decl:
                mod = self._current_module()
                self.globals[(mod, target.id)] = v
            else:
                env.vars[target.id] = v
            return
        if isinstance(target, ast.Attribute):
            obj = self.eval_expr(target.value, env)
            self.setattr(obj, target.attr, v)
            return
        if isinstance(target, ast.Subscript):
            obj = self.eval_expr(target.value, env)
            key = self.eval_expr(target.slice, env)
            self.bm.setitem(self, obj, key, v)
            return
        if isinstance(target, (ast.Tuple, ast.List)):
            items = self.bm.unpack(self, v, target.elts)
            for t, x in zip(target.elts, items):
                if isinstance(t, ast.Starred):
                    self.assign(t.value, x, env)
                else:
                    self.assign(t, x, env)
            return
        raise Unsupported(f"assignment target {type(target).__name__}")

    def _current_module(self):
        for fr in reversed(self.frames):
            return fr.func.module
        return "?"

    # ------------------------------------------------------------------ expressions
    def eval_expr(self, e, env):
        m = getattr(self, "ex_" + type(e).__name__, None)
        if m is None:
            raise Unsupported(f"expression {type(e).__name__} (line {getattr(e, 'lineno', '?')})")
        return m(e, env)

    def ex_Constant(self, e, env):
        return e.value

    def ex_Name(self, e, env):
        try:
            return env.lookup(e.id)
        except KeyError:
            raise PyRaise("NameError", e.id)

    def ex_JoinedStr(self, e, env):
        """f-string: formatted for real when every interpolated value is concrete (python semantics of
        conversion and format spec); otherwise an opaque text that may only be carried around (messages)"""
        parts = []
        for v in e.values:
            if isinstance(v, ast.Constant):
                parts.append(str(v.value))
                continue
            try:
                val = simp(self.eval_expr(v.value, env))
            except (Unsupported, PyRaise):
                return OpaqueText()
            if is_sym(val) or not isinstance(val, (str, int, float, bool, tuple, list, type(None))) or (isinstance(val, (tuple, list)) and any(is_sym(x) or not isinstance(x, (str, int, float, bool, type(None))) for x in val)):
                return OpaqueText()
            if v.conversion == ord("r"):
                val = repr(val)
            elif v.conversion == ord("s"):
                val = str(val)
            elif v.conversion == ord("a"):
                val = ascii(val)
            spec = ""
            if v.format_spec is not None:
                spec = self.ex_JoinedStr(v.format_spec, env)
                if isinstance(spec, OpaqueText):
                    return OpaqueText()
            try:
                parts.append(format(val, spec))
            except (ValueError, TypeError) as ex:
                raise PyRaise(type(ex).__name__, str(ex), e.lineno)
        return "".join(parts)

    def ex_Tuple(self, e, env):
        r = self._eval_elts(e.elts, env, "tuple")
        if isinstance(r, (SymSeq, SymList)):
            return r
        return tuple(r)

    def ex_List(self, e, env):
        r = self._eval_elts(e.elts, env, "list")
        return r

    def _eval_elts(self, elts, env, kind):
        out = []
        sym_parts = []
        for x in elts:
            if isinstance(x, ast.Starred):
                v = self.eval_expr(x.value, env)
                items = self.bm.concrete_iter(self, v)
                if items is None:
                    sym_parts.append(("star", v))
                else:
                    for it in items:
                        sym_parts.append(("one", it))
                        out.append(it)
            else:
                v = self.eval_expr(x, env)
                sym_parts.append(("one", v))
                out.append(v)
        if any(k == "star" for k, _ in sym_parts):
            res = self.bm.concat_parts(self, sym_parts, kind)
            return res
        return out if kind == "list" else out

    def ex_Set(self, e, env):
        return set(self.eval_expr(x, env) for x in e.elts)

    def ex_Dict(self, e, env):
        d = {}
        items = []
        for k, v in zip(e.keys, e.values):
            if k is None:
                raise Unsupported("dict unpacking literal")
            items.append((self.eval_expr(k, env), self.eval_expr(v, env)))
        if not any(is_sym(kk) or (isinstance(kk, tuple) and any(is_sym(x) for x in kk)) for kk, _ in items):
            for kk, vv in items:
                d[kk] = vv
            return d
        # a literal with symbolic keys, e.g. {c: 1}: a symbolic dict built by successive stores (a later equal
        # key overwrites an earlier one, as in python)
        kty = self.type_of(items[0][0])
        vty = self.type_of(items[0][1])
        if isinstance(vty, type(None)) or any(self.type_of(kk) != kty or self.type_of(vv) != vty for kk, vv in items):
            raise Unsupported("dict literal with symbolic keys of mixed types")
        has = z3.K(kty.sort(), z3.BoolVal(False))
        val = z3.K(kty.sort(), self.default_term(vty))
        for kk, vv in items:
            kt = self.unwrap(kk, kty)
            has = z3.Store(has, kt, z3.BoolVal(True))
            val = z3.Store(val, kt, self.unwrap(vv, vty))
        return SymDict(has, val, kty, vty, "literal")

    def ex_Lambda(self, e, env):
        return self.make_func(e, env, self._current_module(), "<lambda>")

    def ex_IfExp(self, e, env):
        c = self.truth(self.eval_expr(e.test, env))
        if isinstance(c, bool):
            return self.eval_expr(e.body if c else e.orelse, env)
        if self.term_mode:
            return self.ite(c, self.eval_expr(e.body, env), self.eval_expr(e.orelse, env))
        if self.ctx.branch(c, f"ifexp{e.lineno}"):
            return self.eval_expr(e.body, env)
        return self.eval_expr(e.orelse, env)

    def ex_BoolOp(self, e, env):
        is_and = isinstance(e.op, ast.And)
        vals = []
        for sub in e.values[:-1]:
            v = self.eval_expr(sub, env)
            t = self.truth(v)
            if isinstance(t, bool):
                if is_and and not t:
                    return v
                if (not is_and) and t:
                    return v
                continue
            if self.term_mode:
                vals.append(t)
                continue
            b = self.ctx.branch(t, f"bool{e.lineno}")
            if is_and and not b:
                return False if (isinstance(v, SV) and v.ty is TBool) else v
            if (not is_and) and b:
                return True if (isinstance(v, SV) and v.ty is TBool) else v
        last = self.eval_expr(e.values[-1], env)
        if vals:
            t = self.truth(last)
            t = z3.BoolVal(t) if isinstance(t, bool) else t
            return simp(SV(z3.And(*vals, t) if is_and else z3.Or(*vals, t), TBool))
        return last

    def ex_UnaryOp(self, e, env):
        v = self.eval_expr(e.operand, env)
        if isinstance(e.op, ast.Not):
            t = self.truth(v)
            if isinstance(t, bool):
                return not t
            return simp(SV(z3.Not(t), TBool))
        if isinstance(e.op, ast.USub):
            if isinstance(v, (int, float)) and not isinstance(v, bool):
                return -v
            if isinstance(v, bool):
                return -int(v)
            if isinstance(v, SV):
                if v.ty in (TInt, TBool):
                    return simp(SV(-I(v), TInt))
                if v.ty is TReal:
                    return SV(-v.t, TReal)
                neg = self.bm.opaque_neg(self, v)
                if neg is not None:
                    return neg
            raise Unsupported(f"unary minus of {v!r}")
        if isinstance(e.op, ast.UAdd):
            return v
        raise Unsupported("unary op")

    def ex_BinOp(self, e, env):
        a = self.eval_expr(e.left, env)
        b = self.eval_expr(e.right, env)
        return self.binop(type(e.op), a, b)

    def binop(self, op, a, b):
        return self.bm.binop(self, op, a, b)

    def ex_Compare(self, e, env):
        left = self.eval_expr(e.left, env)
        terms = []
        for op, rhs in zip(e.ops, e.comparators):
            right = self.eval_expr(rhs, env)
            r = self.bm.compare(self, type(op), left, right)
            if isinstance(r, SymObj) and len(e.ops) == 1:
                return r  # elementwise comparison of a modelled array (compare_hook)
            if isinstance(r, bool):
                if not r:
                    return False
            else:
                terms.append(r)
            left = right
        if not terms:
            return True
        return simp(SV(z3.And(*terms) if len(terms) > 1 else terms[0], TBool))

    def ex_Attribute(self, e, env):
        obj = self.eval_expr(e.value, env)
        return self.getattr(obj, e.attr)

    def ex_Subscript(self, e, env):
        obj = self.eval_expr(e.value, env)
        if isinstance(e.slice, ast.Slice):
            lo = self.eval_expr(e.slice.lower, env) if e.slice.lower else None
            hi = self.eval_expr(e.slice.upper, env) if e.slice.upper else None
            st = self.eval_expr(e.slice.step, env) if e.slice.step else None
            return self.bm.getslice(self, obj, lo, hi, st)
        key = self.eval_expr(e.slice, env)
        return self.bm.getitem(self, obj, key, e.lineno)

    def ex_Slice(self, e, env):
        lo = self.eval_expr(e.lower, env) if e.lower else None
        hi = self.eval_expr(e.upper, env) if e.upper else None
        st = self.eval_expr(e.step, env) if e.step else None
        return SliceVal(lo, hi, st)

    def ex_Starred(self, e, env):
        raise Unsupported("starred expression outside call/tuple")

    def ex_Call(self, e, env):
        # zero-arg super()
        if isinstance(e.func, ast.Name) and e.func.id == "super" and not e.args:
            fr = self.frames[-1]
            return SuperVal(fr.func.owner, fr.self_val)
        fv = self.eval_expr(e.func, env)
        args = []
        for a in e.args:
            if isinstance(a, ast.Starred):
                v = self.eval_expr(a.value, env)
                items = self.bm.concrete_iter(self, v)
                if items is None:
                    seq = self.bm.to_symseq(self, v)
                    args.append(StarSeq(seq))
                else:
                    args.extend(items)
            else:
                args.append(self.eval_expr(a, env))
        kwargs = {}
        for k in e.keywords:
            if k.arg is None:
                d = self.eval_expr(k.value, env)
                if not isinstance(d, dict):
                    raise Unsupported("** of non-concrete dict")
                kwargs.update(d)
            else:
                kwargs[k.arg] = self.eval_expr(k.value, env)
        return self.call(fv, args, kwargs)

    def ex_Yield(self, e, env):
        v = self.eval_expr(e.value, env) if e.value is not None else None
        if self.on_yield is not None:
            return self.on_yield(self, v)
        self.frames[-1].yields.append(v)
        return None

    def ex_GeneratorExp(self, e, env):
        return self.bm.comprehension(self, e, env, "gen")

    def ex_ListComp(self, e, env):
        return self.bm.comprehension(self, e, env, "list")

    def ex_SetComp(self, e, env):
        return self.bm.comprehension(self, e, env, "set")

    def ex_DictComp(self, e, env):
        return self.bm.comprehension(self, e, env, "dict")

    def ex_NamedExpr(self, e, env):
        v = self.eval_expr(e.value, env)
        self.assign(e.target, v, env)
        return v


class StarSeq:
    """marker for a symbolic-length *args"""

    def __init__(self, seq):
        self.seq = seq


def _as_load(t):
    import copy

    t2 = copy.deepcopy(t)
    for n in ast.walk(t2):
        if hasattr(n, "ctx"):
            n.ctx = ast.Load()
    return t2
