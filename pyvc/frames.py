"""Frame / ownership / typestate / read-set / dtype-flow obligations (filled in later)."""


def run(names, prop):
    return []
