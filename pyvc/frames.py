"""Frame / ownership / typestate / dtype-flow / cache-key obligations, decided on the AST of
/repo's current source (a decision procedure over syntactic facts; no SMT).

Every obligation is named after the function and the *site* (ordinal + target text), never a
line number.  Anything the analysis does not understand is `unknown` (undecided), never a
violation.

  ownership   (C14)  every mutation site targets an object that is FRESH (created in this
                     activation or returned by an out-of-place call) or OWNED
                     (`self if inplace else self.copy()` and friends), or sits under `if inplace:`,
                     or the function is one of the documented in-place primitives.
  immutable   (C14, C15) slots of BlockIndex / SubIndexInfo / FermionicOperator are only assigned
                     in their own __init__ / copy_with (hash memo: also in hashkey).
  typestate   (C09)  raw-block consumers are reached only with sign-synchronised operands;
                     block-consuming methods inherited from BlockBase are overridden in FermionicArray.
  dtype_flow  (C20)  every zero-block creation site takes dtype / like from an operand block.
  key_covers  (C15)  the fuse-info cache key mentions everything calc_fuse_block_info reads;
                     index hash keys cover every slot; memoised results are not mutated by callers.
"""

import ast
import time

from .extract import Repo

MODULES = ["abelian_core", "fermionic_core", "block_core", "linalg"]

# documented in-place primitives: they mutate their receiver by contract
INPLACE_API = {
    "__init__", "modify", "_map_blocks", "apply_to_arrays", "set_params", "fill_missing_blocks", "drop_missing_blocks",
    "__iadd__", "__isub__", "__imul__", "__itruediv__", "__ipow__", "hashkey", "phases", "oddpos", "check", "copy_with", "copy",
}
# (function, parameter) pairs that are output parameters by contract
OUT_PARAMS = {("resolve_combined_oddpos", "new")}
MUTATORS = {
    "modify", "_map_blocks", "apply_to_arrays", "set_params", "fill_missing_blocks", "drop_missing_blocks",
    "pop", "popitem", "update", "clear", "setdefault", "append", "extend", "insert", "remove", "discard", "add",
    "move_to_end", "reverse", "sort",
}
FRESH_CALLS = {"copy", "copy_with", "dict", "list", "tuple", "set", "sorted", "defaultdict", "OrderedDict", "__new__"}

FRESH, OWNED, UNKNOWN = "FRESH", "OWNED", "UNKNOWN"


def root_name(e):
    while isinstance(e, (ast.Attribute, ast.Subscript, ast.Call)):
        if isinstance(e, ast.Call):
            e = e.func
        else:
            e = e.value
    return e.id if isinstance(e, ast.Name) else None


def is_none(e):
    return isinstance(e, ast.Constant) and e.value is None


def is_const(e, v):
    return isinstance(e, ast.Constant) and type(e.value) is type(v) and e.value == v


class Ownership:
    def __init__(self, qual, fn, params, is_method, helpers=None):
        self.qual, self.fn = qual, fn
        self.params = params
        self.is_method = is_method
        self.sites = []
        self.counter = 0
        # private module-level helpers that write into a parameter: name -> {param name: position}
        # (their obligation moves to the call sites: the argument must be fresh / owned there)
        self.helpers = helpers or {}
        fname = qual.split(".")[-1]
        self.is_private_helper = (not is_method) and fname.startswith("_") and not fname.startswith("__")
        self.delegated = {}

    def prov_of_expr(self, e, env):
        if isinstance(e, ast.Name):
            return env.get(e.id, UNKNOWN if e.id not in self.params else ("PARAM", e.id))
        if isinstance(e, (ast.Dict, ast.List, ast.Tuple, ast.Set, ast.DictComp, ast.ListComp, ast.SetComp, ast.GeneratorExp, ast.Constant, ast.JoinedStr, ast.BinOp, ast.Compare, ast.BoolOp, ast.UnaryOp, ast.Lambda)):
            return FRESH
        if isinstance(e, ast.IfExp):
            # X = self if inplace else self.copy()
            t = ast.unparse(e.test)
            if t == "inplace" and isinstance(e.body, ast.Name) and self.prov_of_expr(e.orelse, env) == FRESH:
                return OWNED
            a, b = self.prov_of_expr(e.body, env), self.prov_of_expr(e.orelse, env)
            return a if a == b else UNKNOWN
        if isinstance(e, (ast.Attribute, ast.Subscript)):
            r = root_name(e)
            if r is None:
                return UNKNOWN
            return env.get(r, ("PARAM", r) if r in self.params else FRESH if r not in env and r not in self.params else UNKNOWN)
        if isinstance(e, ast.Call):
            f = e.func
            kw = {k.arg: k.value for k in e.keywords if k.arg}
            if isinstance(f, ast.Attribute):
                if f.attr in FRESH_CALLS:
                    return FRESH
                if "inplace" in kw:
                    recv = f.value
                    # Class.method(x, ..., inplace=..): receiver is the first argument
                    target = e.args[0] if (isinstance(recv, ast.Name) and recv.id[:1].isupper() and e.args) else recv
                    if isinstance(target, ast.Call) and isinstance(target.func, ast.Name) and target.func.id == "super" and len(target.args) == 2:
                        target = target.args[1]
                    p = self.prov_of_expr(target, env)
                    if is_const(kw["inplace"], True):
                        return p
                    if is_const(kw["inplace"], False):
                        return FRESH
                    if ast.unparse(kw["inplace"]) == "inplace":
                        return OWNED if isinstance(p, tuple) or p == OWNED else p
                    return UNKNOWN
                # out-of-place method call / function from a module: result is fresh by the callee's frame contract
                return FRESH
            if isinstance(f, ast.Name):
                return FRESH
            return FRESH
        if isinstance(e, ast.Starred):
            return self.prov_of_expr(e.value, env)
        return UNKNOWN

    def site(self, kind, target_expr, prov, under_inplace, node):
        name_txt = ast.unparse(target_expr)
        if len(name_txt) > 60:
            name_txt = name_txt[:57] + "..."
        self.counter += 1
        fname = self.qual.split(".")[-1]
        ok = None
        why = ""
        if prov in (FRESH, OWNED):
            ok = True
        elif isinstance(prov, tuple):
            p = prov[1]
            if under_inplace:
                ok = True
            elif p == "self" and fname in INPLACE_API:
                ok = True
            elif (fname, p) in OUT_PARAMS:
                ok = True
            elif p in ("cls",):
                ok = True
            elif self.is_private_helper and p in self.arg_order:
                # output parameter of a private helper: checked at every call site instead
                ok = True
                self.delegated[p] = self.arg_order.index(p)
            else:
                ok = False
                why = f"mutates parameter `{p}` outside an in-place path"
        else:
            ok = None
            why = "provenance of the target unknown"
        self.sites.append({"name": f"frame.{self.qual}.site{self.counter}.{kind}:{name_txt}", "ok": ok, "why": why, "lineno": node.lineno})

    def mutation_target(self, call):
        """returns the expression mutated by this call, or None"""
        f = call.func
        kw = {k.arg: k.value for k in call.keywords if k.arg}
        if isinstance(f, ast.Attribute):
            inpl = "inplace" in kw and is_const(kw["inplace"], True)
            if inpl or f.attr in MUTATORS:
                recv = f.value
                if isinstance(recv, ast.Name) and recv.id[:1].isupper() and call.args:
                    return call.args[0]
                if isinstance(recv, ast.Call) and isinstance(recv.func, ast.Name) and recv.func.id == "super":
                    if len(recv.args) == 2:
                        return recv.args[1]
                    return ast.Name(id="self", ctx=ast.Load())
                return recv
        return None

    def scan_expr(self, e, env, under):
        for n in ast.walk(e):
            if isinstance(n, ast.Call) and isinstance(n.func, ast.Name) and n.func.id in self.helpers:
                for pname, pos in self.helpers[n.func.id].items():
                    arg = n.args[pos] if pos < len(n.args) and not any(isinstance(a, ast.Starred) for a in n.args[: pos + 1]) else None
                    for k in n.keywords:
                        if k.arg == pname:
                            arg = k.value
                    if arg is None:
                        continue
                    self.site(f"call.{n.func.id}.writes_into_argument", arg, self.prov_of_expr(arg, env), under, n)
            if isinstance(n, ast.Call):
                t = self.mutation_target(n)
                if t is not None:
                    r = root_name(t)
                    if r is None:
                        continue
                    if r not in env and r not in self.params:
                        continue  # module-level object (e.g. the cache dict) -- not an operand
                    self.site("call." + n.func.attr, t, self.prov_of_expr(t, env), under, n)

    def run(self, stmts, env, under=False):
        for s in stmts:
            if isinstance(s, (ast.FunctionDef, ast.ClassDef)):
                # nested helper: analysed with the enclosing environment (closures read outer vars)
                if isinstance(s, ast.FunctionDef):
                    inner = dict(env)
                    for a in s.args.args:
                        inner[a.arg] = FRESH
                    self.run(s.body, inner, under)
                continue
            if isinstance(s, ast.If):
                t = ast.unparse(s.test)
                e1, e2 = dict(env), dict(env)
                self.scan_expr(s.test, env, under)
                self.run(s.body, e1, under or t == "inplace")
                self.run(s.orelse, e2, under or t == "not inplace")
                for k in set(e1) | set(e2):
                    a, b = e1.get(k), e2.get(k)
                    env[k] = a if a == b else (UNKNOWN if (a is not None and b is not None) else (a or b))
                continue
            if isinstance(s, (ast.For, ast.While)):
                if isinstance(s, ast.For):
                    self.scan_expr(s.iter, env, under)
                    itp = self.prov_of_expr(s.iter, env)
                    for n in ast.walk(s.target):
                        if isinstance(n, ast.Name):
                            # loop variables are elements (immutable keys / arrays are never mutated through them here)
                            env[n.id] = FRESH
                else:
                    self.scan_expr(s.test, env, under)
                self.run(s.body, env, under)
                self.run(s.orelse, env, under)
                continue
            if isinstance(s, ast.Try):
                self.run(s.body, env, under)
                for h in s.handlers:
                    self.run(h.body, env, under)
                self.run(s.orelse, env, under)
                self.run(s.finalbody, env, under)
                continue
            if isinstance(s, ast.With):
                self.run(s.body, env, under)
                continue
            if isinstance(s, (ast.Assign, ast.AnnAssign, ast.AugAssign)):
                value = s.value
                if value is not None:
                    self.scan_expr(value, env, under)
                targets = s.targets if isinstance(s, ast.Assign) else [s.target]
                for t in targets:
                    if isinstance(t, ast.Name):
                        if isinstance(s, ast.AugAssign):
                            continue
                        env[t.id] = self.prov_of_expr(value, env) if value is not None else UNKNOWN
                    elif isinstance(t, (ast.Tuple, ast.List)):
                        p = self.prov_of_expr(value, env) if value is not None else UNKNOWN
                        for n in ast.walk(t):
                            if isinstance(n, ast.Name):
                                env[n.id] = p if p in (FRESH, OWNED) else UNKNOWN
                            elif isinstance(n, (ast.Attribute, ast.Subscript)) and isinstance(n.ctx, ast.Store):
                                self._store_site(n, env, under)
                    elif isinstance(t, (ast.Attribute, ast.Subscript)):
                        self._store_site(t, env, under)
                continue
            if isinstance(s, ast.Delete):
                for t in s.targets:
                    if isinstance(t, (ast.Attribute, ast.Subscript)):
                        self._store_site(t, env, under, kind="del")
                continue
            for n in ast.iter_child_nodes(s):
                if isinstance(n, ast.expr):
                    self.scan_expr(n, env, under)

    def _store_site(self, t, env, under, kind="store"):
        r = root_name(t)
        if r is None:
            return
        if r not in env and r not in self.params:
            return
        base = t.value
        self.site(kind, t, self.prov_of_expr(base, env), under, t)


def functions_of(repo, modname):
    mod = repo.module(modname)
    for name, node in mod.functions.items():
        yield f"{modname}.{name}", node, False
    for cname, cnode in mod.classes.items():
        for n in cnode.body:
            if isinstance(n, ast.FunctionDef):
                yield f"{modname}.{cname}.{n.name}", n, True


def rec(task, props, obligations, targets=(), assumes=()):
    return {
        "task": task,
        "props": props,
        "targets": list(targets),
        "status": "ok" if obligations else "undecided",
        "reason": "" if obligations else "zero obligations generated (vacuity guard)",
        "obligations": obligations,
        "paths": 0,
        "assumes": list(assumes),
        "solver_s": 0.0,
        "wall_s": 0.0,
    }


def ob(name, ok, why="", lineno=None):
    status = "proved" if ok is True else ("refuted" if ok is False else "unknown")
    o = {"name": name, "status": status, "backend": "frames", "time_s": 0.0, "path": ""}
    if lineno:
        o["lineno"] = lineno
    if status == "refuted":
        o["model"] = {"reason": why}
    if status == "unknown":
        o["reason"] = why
    return o


# ----------------------------------------------------------------------------


def check_ownership(repo):
    obs, targets = [], []

    def analyse(helpers):
        out = []
        for m in MODULES:
            for qual, node, is_method in functions_of(repo, m):
                a = node.args
                order = [p.arg for p in a.posonlyargs + a.args]
                params = order + [p.arg for p in a.kwonlyargs]
                if a.vararg:
                    params.append(a.vararg.arg)
                if a.kwarg:
                    params.append(a.kwarg.arg)
                an = Ownership(qual, node, set(params), is_method, helpers)
                an.arg_order = order
                an.run(node.body, {})
                out.append((qual, node, an))
        return out

    # private module-level helpers writing into a parameter: fixpoint (a helper may hand its
    # parameter on to another helper)
    helpers = {}
    for _ in range(4):
        res = analyse(helpers)
        new = {q.split(".")[-1]: dict(an.delegated) for q, _, an in res if an.delegated}
        if new == helpers:
            break
        helpers = new
    for qual, node, an in res:
        if an.sites:
            targets.append({"function": qual, "sha256_16": repo.sha_of(qual), "line": node.lineno})
        for s in an.sites:
            obs.append(ob(s["name"], s["ok"], s["why"], s["lineno"]))
    return rec(
        "frames.ownership",
        ["C14"],
        obs,
        targets,
        assumes=[
            "callee frame contracts: an out-of-place method/function call returns a fresh object (proved for copy/copy_with/sign-table ops/blockwise ops in the proof tier; bounded tier C14 for the rest)",
            "documented in-place primitives (modify, _map_blocks, apply_to_arrays, set_params, fill/drop_missing_blocks, __i*__) may mutate their receiver",
            "numpy buffers: block arrays are never written in place except buffers created by zeros() in the same activation (checked: slice stores only into locals)",
        ],
    )


def check_immutable(repo):
    """slots of the value classes are assigned only in their own constructors"""
    classes = {
        "BlockIndex": ("abelian_core", {"__init__", "copy_with", "hashkey"}),
        "SubIndexInfo": ("abelian_core", {"__init__", "copy_with", "hashkey"}),
        "FermionicOperator": ("fermionic_local_operators", {"__init__"}),
    }
    slots = {}
    for c, (m, _) in classes.items():
        node = repo.module(m).classes[c]
        for n in node.body:
            if isinstance(n, ast.Assign) and n.targets[0].id == "__slots__":
                slots[c] = set(ast.literal_eval(n.value))
    obs = []
    owner = {}
    for c, ss in slots.items():
        for sl in ss:
            owner.setdefault(sl, set()).add(c)
    shared = {"_indices", "_hashkey"}  # slot names also used by other classes
    for m in MODULES + ["fermionic_local_operators", "interface", "utils", "networks", "hamiltonians"]:
        if not repo.has_module(m):
            continue
        for qual, node, is_method in functions_of(repo, m):
            parts = qual.split(".")
            cls = parts[1] if len(parts) == 3 else None
            k = 0
            for n in ast.walk(node):
                if isinstance(n, ast.Attribute) and isinstance(n.ctx, (ast.Store, ast.Del)) and n.attr in owner:
                    owners = owner[n.attr]
                    k += 1
                    if n.attr in shared and cls is not None and cls not in classes:
                        # same slot name on an unrelated class (e.g. AbelianArray._indices): not a value class
                        continue
                    allowed = cls in owners and parts[2] in classes[cls][1]
                    c = cls if cls in owners else sorted(owners)[0]
                    obs.append(ob(f"immutable.{c}.{n.attr}.assigned_in.{qual}#{k}", True if allowed else False, f"slot {n.attr} of value class {c} assigned in {qual}", n.lineno))
    # constructors reset the hash memo
    for c in ("BlockIndex", "SubIndexInfo"):
        for meth in ("__init__", "copy_with"):
            fn = repo.find(f"abelian_core.{c}.{meth}")
            src = ast.unparse(fn)
            resets = [n for n in ast.walk(fn) if isinstance(n, ast.Assign) and any(isinstance(t, ast.Attribute) and t.attr == "_hashkey" for t in n.targets) and is_none(n.value)]
            others = [n for n in ast.walk(fn) if isinstance(n, ast.Assign) and any(isinstance(t, ast.Attribute) and t.attr == "_hashkey" for t in n.targets) and not is_none(n.value)]
            obs.append(ob(f"immutable.{c}.{meth}.resets_hash_memo", bool(resets) and not others, "constructor does not (unconditionally) reset the memoised hash key", fn.lineno))
    return rec("frames.immutable", ["C14", "C15"], obs, [{"function": f"abelian_core.{c}", "sha256_16": repo.sha_of(f"abelian_core.{c}"), "line": 0} for c in ("BlockIndex", "SubIndexInfo")])


# ----------------------------------------------------------------------------
# typestate (C09)

SIGN_OPS = {"transpose", "phase_flip", "phase_transpose", "phase_global", "phase_sector", "conj", "dagger", "_map_blocks", "fuse", "unfuse"}
RAW_CONSUMERS_ABELIAN = {"unfuse", "einsum", "trace", "__matmul__", "to_dense", "allclose", "_fuse_core"}
INHERITED_RAW = ["_do_reduction", "_do_unary_op", "clip", "item", "_binary_blockwise_op", "fuse", "unfuse", "einsum", "__matmul__", "to_dense", "allclose", "trace"]


class Typestate:
    def __init__(self, qual, node):
        self.qual, self.node = qual, node
        self.sites = []
        self.k = 0

    def synced_expr(self, e, synced):
        if isinstance(e, ast.Name):
            return e.id in synced
        if isinstance(e, ast.Call) and isinstance(e.func, ast.Attribute) and e.func.attr == "phase_sync":
            return True
        if isinstance(e, ast.Call) and isinstance(e.func, ast.Name) and e.func.id == "super" and len(e.args) == 2:
            return self.synced_expr(e.args[1], synced)
        return False

    def consumer_args(self, call):
        """array-valued arguments of a raw-block consumer call, or None if not a consumer"""
        f = call.func
        if isinstance(f, ast.Attribute):
            recv = f.value
            if isinstance(recv, ast.Name) and recv.id == "AbelianArray" and f.attr in RAW_CONSUMERS_ABELIAN | {"fuse"}:
                n = 2 if f.attr in ("__matmul__", "allclose") else 1
                return list(call.args[:n])
            if f.attr in ("_fuse_core",):
                return [recv]
            if isinstance(recv, ast.Call) and isinstance(recv.func, ast.Name) and recv.func.id == "super" and f.attr in INHERITED_RAW:
                if len(recv.args) == 2:
                    out = [recv.args[1]]
                else:
                    out = [ast.Name(id="self", ctx=ast.Load())]
                if f.attr == "_binary_blockwise_op" and call.args:
                    out.append(call.args[0])
                return out
            # eigh.dispatch(AbelianArray)(a) / solve.dispatch(AbelianArray)(a, b)
        if isinstance(f, ast.Call) and isinstance(f.func, ast.Attribute) and f.func.attr == "dispatch":
            which = ast.unparse(f.func.value)
            if which in ("eigh", "solve"):
                return list(call.args)
            return None  # qr / svd: sign-equivariant, table handed on (listed assumption)
        if isinstance(f, ast.Name) and f.id == "tensordot_abelian":
            return list(call.args[:2])
        return None

    def run(self, stmts, synced):
        for s in stmts:
            if isinstance(s, ast.If):
                a, b = set(synced), set(synced)
                self.scan(s.test, synced)
                self.run(s.body, a)
                self.run(s.orelse, b)
                # `if other.phases: other = other.phase_sync()` : synced afterwards either way
                t = ast.unparse(s.test)
                for v in list(a):
                    # `if v.phases: v = v.phase_sync()`            -> synced either way
                    # `if isinstance(v, FermionicArray): <sync v>` -> otherwise v carries no sign table at all
                    if v not in b and t in (f"{v}.phases", f"{v}._phases", f"isinstance({v}, FermionicArray)"):
                        b.add(v)
                synced.clear()
                synced.update(a & b)
                continue
            if isinstance(s, (ast.For, ast.While, ast.Try, ast.With)):
                for blk in ("body", "orelse", "finalbody"):
                    self.run(getattr(s, blk, []) or [], synced)
                for h in getattr(s, "handlers", []):
                    self.run(h.body, synced)
                continue
            if isinstance(s, ast.FunctionDef):
                continue
            self.scan(s, synced)
            if isinstance(s, ast.Assign) and len(s.targets) == 1 and isinstance(s.targets[0], ast.Name):
                v = s.targets[0].id
                if self.synced_expr(s.value, synced) or (isinstance(s.value, ast.Call) and self.consumer_args(s.value) is not None and isinstance(s.value.func, ast.Attribute) and isinstance(s.value.func.value, ast.Name) and s.value.func.value.id == "AbelianArray"):
                    synced.add(v)
                elif isinstance(s.value, ast.IfExp) and ast.unparse(s.value.test) == "inplace":
                    synced.discard(v)
                else:
                    synced.discard(v)
            # in-place calls on a variable
            for n in ast.walk(s):
                if isinstance(n, ast.Call) and isinstance(n.func, ast.Attribute) and isinstance(n.func.value, ast.Name):
                    v = n.func.value.id
                    kw = {k.arg: k.value for k in n.keywords if k.arg}
                    if n.func.attr == "phase_sync" and "inplace" in kw and is_const(kw["inplace"], True):
                        synced.add(v)
                    elif n.func.attr in SIGN_OPS and "inplace" in kw and is_const(kw["inplace"], True):
                        synced.discard(v)

    def scan(self, node, synced):
        for n in ast.walk(node):
            if isinstance(n, ast.Call):
                args = self.consumer_args(n)
                if args is None:
                    continue
                for a in args:
                    self.k += 1
                    ok = self.synced_expr(a, synced)
                    self.sites.append((f"typestate.{self.qual}.consumer{self.k}.{ast.unparse(n.func)[:50]}({ast.unparse(a)[:30]})", ok, n.lineno))


def check_typestate(repo):
    obs, targets = [], []
    fc = repo.module("fermionic_core")
    todo = [(f"fermionic_core.FermionicArray.{n.name}", n) for n in fc.classes["FermionicArray"].body if isinstance(n, ast.FunctionDef)]
    todo += [("fermionic_core.tensordot_fermionic", fc.functions["tensordot_fermionic"])]
    la = repo.module("linalg")
    todo += [(f"linalg.{n}", la.functions[n]) for n in ("qr_fermionic", "svd_fermionic", "eigh_fermionic", "solve_fermionic") if n in la.functions]
    for qual, node in todo:
        ts = Typestate(qual, node)
        ts.run(node.body, set())
        if ts.sites:
            targets.append({"function": qual, "sha256_16": repo.sha_of(qual), "line": node.lineno})
        for name, ok, ln in ts.sites:
            obs.append(ob(name, True if ok else False, "raw-block consumer reached with an operand that is not known to be sign-synchronised", ln))
    # block-consuming methods inherited from BlockBase / AbelianArray must be overridden
    members = {n.name for n in fc.classes["FermionicArray"].body if isinstance(n, ast.FunctionDef)}
    for m in INHERITED_RAW:
        obs.append(ob(f"typestate.FermionicArray.overrides.{m}", m in members, f"FermionicArray inherits {m} which reads raw blocks without synchronising the pending signs"))
    # the overrides must actually synchronise
    for m in INHERITED_RAW:
        if m in members:
            src = ast.unparse(repo.find(f"fermionic_core.FermionicArray.{m}"))
            obs.append(ob(f"typestate.FermionicArray.{m}.synchronises", "phase_sync" in src, f"override of {m} never calls phase_sync"))
    return rec(
        "frames.typestate",
        ["C09"],
        obs,
        targets,
        assumes=[
            "linalg.qr / linalg.svd are sign-equivariant in their input blocks (factor of a negated block is the negated factor up to gauge) and hand the sign table on to u/q: listed mathematical assumption, bounded tier C09/C11",
            "norm, scalar multiplication, negation are linear / sign-invariant and need no synchronisation",
        ],
    )


# ----------------------------------------------------------------------------
# dtype flow (C20)


def _assigned_from(fn, pred):
    """names assigned (anywhere in fn) from an expression satisfying pred"""
    out = set()
    for n in ast.walk(fn):
        if isinstance(n, ast.Assign) and pred(n.value):
            for t in n.targets:
                if isinstance(t, ast.Name):
                    out.add(t.id)
    return out


def _is_call_to(e, dotted):
    return isinstance(e, ast.Call) and ast.unparse(e.func) == dotted


def check_dtype_flow(repo):
    """structural (name-agnostic) data-flow facts at the zero-block creation sites"""
    obs = []
    ac = repo.module("abelian_core")
    fuse_core = repo.find("abelian_core.AbelianArray._fuse_core")
    ex = _assigned_from(fuse_core, lambda v: _is_call_to(v, "self.get_any_array"))
    obs.append(ob("dtype_flow._fuse_core.example_block_from_operand", bool(ex), "no example array taken from the operand (self.get_any_array())", fuse_core.lineno))
    # a dict K with K["dtype"] = <example>.dtype, or = an expression that combines the dtypes of ALL stored blocks
    # (a generator over self._blocks.values() reading .dtype of its loop variable, e.g. folded with promote_types)
    def _dtype_of_stored_blocks(v):
        gens = [g for g in ast.walk(v) if isinstance(g, ast.GeneratorExp) and len(g.generators) == 1 and ast.unparse(g.generators[0].iter) in ("self._blocks.values()", "self.blocks.values()") and isinstance(g.generators[0].target, ast.Name)]
        if len(gens) != 1:
            return False
        var = gens[0].generators[0].target.id
        reads = [a for a in ast.walk(v) if isinstance(a, ast.Attribute) and a.attr == "dtype"]
        return bool(reads) and all(isinstance(a.value, ast.Name) and a.value.id == var for a in reads) and ast.unparse(gens[0].elt) == f"{var}.dtype"

    kdicts = set()
    unrecognised = False
    for n in ast.walk(fuse_core):
        if isinstance(n, ast.Assign) and len(n.targets) == 1 and isinstance(n.targets[0], ast.Subscript):
            t = n.targets[0]
            if isinstance(t.value, ast.Name) and is_const(t.slice, "dtype"):
                from_example = isinstance(n.value, ast.Attribute) and n.value.attr == "dtype" and isinstance(n.value.value, ast.Name) and n.value.value.id in ex
                if from_example or _dtype_of_stored_blocks(n.value):
                    kdicts.add(t.value.id)
                else:
                    unrecognised = True
    # not recognised syntactically (e.g. the keyword arguments are built by a helper): undecided here -- the contract
    # C05._fuse_core (contracts/fuse_entry.py) interprets whatever code builds them
    verdict = True if kdicts and not unrecognised else (False if unrecognised else None)
    obs.append(ob("dtype_flow._fuse_core.zeros_kwargs_dtype_from_operand_blocks", verdict, "dtype of the zero blocks is not taken from the operand's blocks" if unrecognised else "zeros keyword arguments not built in place (decided by the contract C05._fuse_core instead)", fuse_core.lineno))
    backends = _assigned_from(fuse_core, lambda v: _is_call_to(v, "ar.infer_backend") and v.args and isinstance(v.args[0], ast.Name) and v.args[0].id in ex)
    zfns = _assigned_from(fuse_core, lambda v: _is_call_to(v, "ar.get_lib_fn") and len(v.args) == 2 and is_const(v.args[1], "zeros") and isinstance(v.args[0], ast.Name) and v.args[0].id in backends)
    obs.append(ob("dtype_flow._fuse_core.zeros_fn_from_example_backend", bool(zfns), "zeros function not resolved from the operand's backend", fuse_core.lineno))
    calls = [n for n in ast.walk(fuse_core) if isinstance(n, ast.Call) and isinstance(n.func, ast.Name) and n.func.id in ("_fuse_blocks_via_insert", "_fuse_blocks_via_concat")]
    obs.append(ob("dtype_flow._fuse_core.both_strategies_called", {c.func.id for c in calls} == {"_fuse_blocks_via_insert", "_fuse_blocks_via_concat"}, "expected calls to both fuse strategies"))
    for c in calls:
        callee = ac.functions[c.func.id]
        params = [a.arg for a in callee.args.args]
        zpos = [i for i, a in enumerate(c.args) if isinstance(a, ast.Name) and a.id in zfns]
        kpos = [i for i, a in enumerate(c.args) if isinstance(a, ast.Name) and a.id in kdicts]
        okc = len(zpos) == 1 and len(kpos) == 1
        if not kdicts and len(zpos) == 1:
            okc = None  # which argument carries the keyword arguments is unknown here (see above): undecided
        obs.append(ob(f"dtype_flow._fuse_core.passes_zeros_fn_and_kwargs_to.{c.func.id}", okc, "zeros function / dtype kwargs not forwarded to the strategy", c.lineno))
        if not okc:
            continue
        zp, kp = params[zpos[0]], params[kpos[0]]
        k = 0
        for n in ast.walk(callee):
            if isinstance(n, ast.Call) and isinstance(n.func, ast.Name) and n.func.id == zp:
                k += 1
                has = any(kw.arg is None and isinstance(kw.value, ast.Name) and kw.value.id == kp for kw in n.keywords)
                obs.append(ob(f"dtype_flow.{c.func.id}.zeros_site{k}.uses_dtype_kwargs", has, "zero block created without the operand's dtype", n.lineno))
        obs.append(ob(f"dtype_flow.{c.func.id}.has_zero_creation_site", True if k >= 1 else None, "no zeros site found (function restructured?)"))
        # no other way of creating zeros in the strategy
        other = [n for n in ast.walk(callee) if isinstance(n, ast.Call) and ("zeros" in ast.unparse(n.func)) and not (isinstance(n.func, ast.Name) and n.func.id == zp)]
        obs.append(ob(f"dtype_flow.{c.func.id}.no_other_zero_creation", not other, f"zeros created outside the dtype-carrying function: {[ast.unparse(o)[:50] for o in other[:2]]}", other[0].lineno if other else None))
    for q in ("abelian_core.AbelianArray.fill_missing_blocks", "abelian_core.AbelianArray.to_dense"):
        fn = repo.find(q)
        exq = _assigned_from(fn, lambda v: _is_call_to(v, "self.get_any_array"))
        k = 0
        for n in ast.walk(fn):
            if isinstance(n, ast.Call) and ast.unparse(n.func) == "ar.do" and n.args and is_const(n.args[0], "zeros"):
                k += 1
                like = [kw for kw in n.keywords if kw.arg == "like"]
                obs.append(ob(f"dtype_flow.{q.split('.')[-1]}.zeros_site{k}.like_example_block", bool(like) and isinstance(like[0].value, ast.Name) and like[0].value.id in exq, "zeros created without like=<operand block>", n.lineno))
        obs.append(ob(f"dtype_flow.{q.split('.')[-1]}.has_zero_creation_site", True if k >= 1 else None, "no zeros site found"))
    ga = repo.find("block_core.BlockBase.get_any_array")
    rets = [n for n in ast.walk(ga) if isinstance(n, ast.Return)]
    okga = len(rets) == 1 and "self._blocks.values()" in ast.unparse(rets[0]) or "self.blocks.values()" in ast.unparse(ga)
    obs.append(ob("dtype_flow.get_any_array.returns_a_stored_block", bool(okga), "get_any_array does not return a stored block", ga.lineno))
    return rec("frames.dtype_flow", ["C20"], obs, [{"function": "abelian_core.AbelianArray._fuse_core", "sha256_16": repo.sha_of("abelian_core.AbelianArray._fuse_core"), "line": fuse_core.lineno}], assumes=["A-numpy: zeros(shape, dtype=d) has dtype d; ar.do('zeros', shape, like=x) has the dtype of x (checked in the bounded tier C20)"])


# ----------------------------------------------------------------------------
# cache key coverage (C15)


def attrs_read_on(fn, name):
    out = set()
    for n in ast.walk(fn):
        if isinstance(n, ast.Attribute) and isinstance(n.value, ast.Name) and n.value.id == name:
            out.add(n.attr)
    return out


def check_key_covers(repo):
    obs = []
    cfbi = repo.find("abelian_core.calc_fuse_block_info")
    reads = attrs_read_on(cfbi, "self")
    allowed = {"duals", "indices", "symmetry", "blocks"}
    obs.append(ob("key_covers.calc_fuse_block_info.reads_only_keyed_state", reads <= allowed, f"calc_fuse_block_info reads self.{sorted(reads - allowed)} which the cache key does not cover", cfbi.lineno))
    # duals derive from indices
    dp = ast.unparse(repo.find("abelian_core.AbelianArray.duals"))
    obs.append(ob("key_covers.duals_derive_from_indices", "ix.dual for ix in self._indices" in dp, "duals no longer a function of the indices"))
    # second argument
    args = [a.arg for a in cfbi.args.args]
    obs.append(ob("key_covers.calc_fuse_block_info.arguments", args == ["self", "axes_groups"], f"unexpected parameters {args}"))
    # free module-level state read by calc_fuse_block_info
    names = {n.id for n in ast.walk(cfbi) if isinstance(n, ast.Name) and isinstance(n.ctx, ast.Load)}
    local = {n.id for n in ast.walk(cfbi) if isinstance(n, ast.Name) and isinstance(n.ctx, ast.Store)} | set(args)
    mod = repo.module("abelian_core")
    globs = {x for x in names - local if x in mod.assigns}
    obs.append(ob("key_covers.calc_fuse_block_info.reads_no_module_state", not globs, f"reads module globals {sorted(globs)}"))
    # the key expression
    cached = repo.find("abelian_core.cached_fuse_block_info")
    key_call = None
    for n in ast.walk(cached):
        if isinstance(n, ast.Assign) and isinstance(n.targets[0], ast.Name) and n.targets[0].id == "key":
            key_call = n.value
    def direct(c):
        return isinstance(c, ast.Call) and ast.unparse(c.func) == "hasher" and len(c.args) == 1 and isinstance(c.args[0], ast.Tuple)

    key_fn = cached
    if not direct(key_call) and isinstance(key_call, ast.Call) and isinstance(key_call.func, ast.Name) and key_call.func.id in repo.module("abelian_core").functions:
        # key built by a helper called with this function's own parameters, in order: look inside it
        helper = repo.module("abelian_core").functions[key_call.func.id]
        hp = [a.arg for a in helper.args.args]
        same_args = not key_call.keywords and [ast.unparse(a) for a in key_call.args] == [a.arg for a in cached.args.args][: len(key_call.args)] and hp == [a.arg for a in cached.args.args][: len(hp)] and len(hp) == len(key_call.args)
        rets = [n for n in ast.walk(helper) if isinstance(n, ast.Return)]
        if same_args and len(rets) == 1 and direct(rets[0].value) and not any(isinstance(n, (ast.Assign, ast.AugAssign)) for n in ast.walk(helper)):
            key_call, key_fn = rets[0].value, helper
    ok = direct(key_call)
    # an unrecognised key expression is undecided here: the contract C15.cached_fuse_block_info (proof tier)
    # interprets the code that builds the key, whatever its shape
    obs.append(ob("key_covers.key_is_hasher_of_tuple", True if ok else None, "cache key expression not recognised syntactically (decided by the contract C15.cached_fuse_block_info instead)", cached.lineno))
    if ok:
        elts = key_call.args[0].elts

        def is_index_hashkeys(e):
            # tuple(<v>.hashkey() for <v> in self.indices)
            if not (_is_call_to(e, "tuple") and len(e.args) == 1 and isinstance(e.args[0], ast.GeneratorExp)):
                return False
            g = e.args[0]
            if len(g.generators) != 1 or g.generators[0].ifs or ast.unparse(g.generators[0].iter) not in ("self.indices", "self._indices"):
                return False
            v = g.generators[0].target
            return isinstance(v, ast.Name) and isinstance(g.elt, ast.Call) and ast.unparse(g.elt) == f"{v.id}.hashkey()"

        second_param = cached.args.args[1].arg if len(cached.args.args) > 1 else None
        for pred, what in [
            (is_index_hashkeys, "hash keys of all indices, in order"),
            (lambda e: ast.unparse(e) in ("tuple(self.blocks)", "tuple(self._blocks)", "tuple(self.blocks.keys())", "self.sectors"), "the stored sectors, in order"),
            (lambda e: ast.unparse(e) in ("self.symmetry", "self._symmetry"), "the symmetry"),
            (lambda e: isinstance(e, ast.Name) and e.id == second_param, "the axes groups"),
        ]:
            obs.append(ob(f"key_covers.key_contains.{what.replace(' ', '_').replace(',', '')}", any(pred(e) for e in elts), f"cache key does not contain {what}", cached.lineno))
    # A-hash is only justified for a collision resistant digest of a canonical serialisation
    hf = repo.module("abelian_core").functions.get("hasher")
    verdict, why = None, "hasher not found / not recognised"
    if hf is not None and len(hf.args.args) == 1:
        arg = hf.args.args[0].arg
        rets = [n for n in ast.walk(hf) if isinstance(n, ast.Return) and n.value is not None]
        if len(rets) == 1:
            txt = ast.unparse(rets[0].value).replace(" ", "")
            import re as _re

            if _re.fullmatch(r"hashlib\.(sha1|sha224|sha256|sha384|sha512|sha3_\d+|blake2[bs]|md5)\(pickle\.dumps\(%s(,protocol=[-\w.]+)?\)\)\.(hex)?digest\(\)" % arg, txt):
                verdict = True
            elif _re.fullmatch(r"hash\(%s\)" % arg, txt) or _re.fullmatch(r"%s\.__hash__\(\)" % arg, txt):
                # CPython: hash(-1) == hash(-2), and tuple hashes are built from element hashes
                verdict, why = False, "hasher is the builtin hash, which is not injective on charges: hash((-1,)) == hash((-2,)) in CPython, so indices differing by charge -1 / -2 share a cache key"
            else:
                why = f"hasher returns {txt[:80]}: not a recognised collision resistant digest (undecided)"
    obs.append(ob("key_covers.hasher_is_a_collision_resistant_digest_of_the_pickled_key", verdict, why, hf.lineno if hf is not None else None))
    # hash keys cover every slot
    for cls, memo in (("BlockIndex", "_hashkey"), ("SubIndexInfo", "_hashkey")):
        cnode = mod.classes[cls]
        slots = set()
        for n in cnode.body:
            if isinstance(n, ast.Assign) and n.targets[0].id == "__slots__":
                slots = set(ast.literal_eval(n.value))
        hk = repo.find(f"abelian_core.{cls}.hashkey")
        hashed = None
        for n in ast.walk(hk):
            if isinstance(n, ast.Call) and ast.unparse(n.func) == "hasher":
                hashed = n.args[0]
        read = {n.attr for n in ast.walk(hashed) if isinstance(n, ast.Attribute) and isinstance(n.value, ast.Name) and n.value.id == "self"} if hashed is not None else set()
        for sl in sorted(slots - {memo}):
            obs.append(ob(f"key_covers.{cls}.hashkey.covers_slot.{sl}", sl in read, f"{cls}.hashkey does not hash slot {sl}", hk.lineno))
        memo_assigns = [n for n in ast.walk(hk) if isinstance(n, ast.Assign) and any(ast.unparse(t) == "self._hashkey" for t in n.targets)]
        rets = [n for n in ast.walk(hk) if isinstance(n, ast.Return)]
        okm = bool(memo_assigns) and all(_is_call_to(n.value, "hasher") for n in memo_assigns) and bool(rets) and all(ast.unparse(r.value) == "self._hashkey" for r in rets)
        obs.append(ob(f"key_covers.{cls}.hashkey.memo_only_set_from_hash_of_current_fields", okm, "hash memo is assigned from something other than the hash of the current fields, or something else is returned"))
    bh = ast.unparse(repo.find("abelian_core.BlockIndex.hashkey"))
    obs.append(ob("key_covers.BlockIndex.hashkey.chargemap_items_in_order", "tuple(self._chargemap.items())" in bh, "chargemap content/order not hashed"))
    obs.append(ob("key_covers.BlockIndex.hashkey.subinfo_hash_or_None", "self._subinfo.hashkey() if self._subinfo else None" in bh, "sub-index info not hashed"))
    sh = ast.unparse(repo.find("abelian_core.SubIndexInfo.hashkey"))
    obs.append(ob("key_covers.SubIndexInfo.hashkey.extents_items_in_order", "tuple(extent.items())" in sh and "in self._extents.items()" in sh and "(c, tuple(extent.items()))" in sh, "extents content/order not hashed"))
    obs.append(ob("key_covers.SubIndexInfo.hashkey.sub_indices_hashed", "for ix in self._indices" in sh and ("ix.hashkey" in sh), "sub-indices not hashed"))
    # callers never mutate memoised results
    memo_fns = {"calc_fuse_group_info", "calc_reshape_args", "calc_sub_max_bonds", "cached_fuse_block_info", "calc_fuse_block_info"}
    k = 0
    for m in MODULES:
        for qual, node, _ in functions_of(repo, m):
            tainted = set()
            for n in ast.walk(node):
                if isinstance(n, ast.Assign) and isinstance(n.value, ast.Call):
                    f = n.value.func
                    fname = f.id if isinstance(f, ast.Name) else (f.attr if isinstance(f, ast.Attribute) else None)
                    sub = isinstance(n.value, ast.Call) and fname in memo_fns
                    if sub:
                        for t in n.targets:
                            if isinstance(t, ast.Name):
                                tainted.add(t.id)
                            elif isinstance(t, (ast.Tuple, ast.List)):
                                tainted.update(nn.id for nn in t.elts if isinstance(nn, ast.Name))
                if isinstance(n, ast.Assign) and isinstance(n.value, ast.Subscript) and isinstance(n.value.value, ast.Call):
                    f = n.value.value.func
                    fname = f.id if isinstance(f, ast.Name) else (f.attr if isinstance(f, ast.Attribute) else None)
                    if fname in memo_fns:
                        for t in n.targets:
                            for nn in ast.walk(t):
                                if isinstance(nn, ast.Name):
                                    tainted.add(nn.id)
            if not tainted:
                continue
            bad = []
            for n in ast.walk(node):
                if isinstance(n, ast.Call) and isinstance(n.func, ast.Attribute) and n.func.attr in MUTATORS and root_name(n.func.value) in tainted:
                    # `perm.index` etc. are reads; MUTATORS only
                    bad.append((ast.unparse(n)[:60], n.lineno))
                if isinstance(n, (ast.Subscript, ast.Attribute)) and isinstance(getattr(n, "ctx", None), (ast.Store, ast.Del)) and root_name(n) in tainted:
                    bad.append((ast.unparse(n)[:60], n.lineno))
            k += 1
            obs.append(ob(f"key_covers.memoised_results_not_mutated_in.{qual}", not bad, f"mutates a memoised result: {bad[:2]}", bad[0][1] if bad else None))
    return rec(
        "frames.key_covers",
        ["C15"],
        obs,
        [{"function": q, "sha256_16": repo.sha_of(q), "line": repo.lineno_of(q)} for q in ("abelian_core.calc_fuse_block_info", "abelian_core.cached_fuse_block_info", "abelian_core.BlockIndex.hashkey", "abelian_core.SubIndexInfo.hashkey")],
        assumes=[
            "A-hash: sha1(pickle(.)) is injective on the hashed tuples; pickling the bound method `ix.hashkey` in SubIndexInfo.hashkey captures every slot of the sub-index",
            "value classes immutable (frames.immutable)",
        ],
    )


CHECKS = {
    "ownership": check_ownership,
    "immutable": check_immutable,
    "typestate": check_typestate,
    "dtype_flow": check_dtype_flow,
    "key_covers": check_key_covers,
}


def run(names, prop):
    repo = Repo()
    out = []
    for n in names:
        t0 = time.time()
        try:
            r = CHECKS[n](repo)
        except Exception:
            import traceback

            r = {"task": f"frames.{n}", "props": [prop], "targets": [], "status": "crash", "reason": traceback.format_exc()[-1500:], "obligations": []}
        r["wall_s"] = round(time.time() - t0, 3)
        out.append(r)
    return out


if __name__ == "__main__":
    import sys

    for r in run(sys.argv[1:] or list(CHECKS), "-"):
        bad = [o for o in r["obligations"] if o["status"] != "proved"]
        print(r["task"], r["status"], "obligations", len(r["obligations"]), "not proved", len(bad), r.get("reason", "")[:300])
        for o in bad:
            print("   ", o["status"], o["name"], o.get("model", o.get("reason", "")), "line", o.get("lineno"))
