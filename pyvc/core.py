"""Core of the VC generator: type descriptors, symbolic values, path exploration and
obligation bookkeeping.

Semantics assumed by the encoding (stated once, repeated in every evidence file):
  * Python `int` is a mathematical integer (exact: no overflow exists in CPython);
  * `bool` coerces to 0/1 in arithmetic; `float` is encoded as a real (A-float);
  * sequences are (length, total map index->element); dicts are (presence map, value map);
    iteration order of a symbolic dict is abstracted to *every* order (sound for all orders);
  * object identity / aliasing is concrete: distinct symbolic objects created by a task
    set-up are distinct Python objects;
  * termination is not proved (partial correctness).
"""

import itertools
import time

import z3

# ----------------------------------------------------------------------------
# type descriptors


class T:
    def sort(self):
        raise NotImplementedError


class _TInt(T):
    def sort(self):
        return z3.IntSort()

    def __repr__(self):
        return "int"


class _TBool(T):
    def sort(self):
        return z3.BoolSort()

    def __repr__(self):
        return "bool"


class _TReal(T):
    def sort(self):
        return z3.RealSort()

    def __repr__(self):
        return "real"


TInt, TBool, TReal = _TInt(), _TBool(), _TReal()

_sort_cache = {}


class TOpaque(T):
    def __init__(self, name):
        self.name = name

    def sort(self):
        if self.name not in _sort_cache:
            _sort_cache[self.name] = z3.DeclareSort(self.name)
        return _sort_cache[self.name]

    def __repr__(self):
        return self.name

    def __eq__(self, o):
        return isinstance(o, TOpaque) and o.name == self.name

    def __hash__(self):
        return hash(("op", self.name))


class TStruct(T):
    """A record type; `cls` (optional) is the repo class whose instances it models."""

    def __init__(self, name, fields, cls=None):
        self.name = name
        self.fields = list(fields)
        self.cls = cls
        self._dt = None

    def sort(self):
        if self._dt is None:
            if self.name in _sort_cache:
                self._dt = _sort_cache[self.name]
            else:
                dt = z3.Datatype(self.name)
                dt.declare("mk_" + self.name, *[(f"{self.name}_{f}", t.sort()) for f, t in self.fields])
                self._dt = dt.create()
                _sort_cache[self.name] = self._dt
        return self._dt

    def make(self, *terms):
        return self.sort().constructor(0)(*terms)

    def get(self, term, fname):
        for i, (f, _) in enumerate(self.fields):
            if f == fname:
                return self.sort().accessor(0, i)(term)
        raise KeyError(fname)

    def ftype(self, fname):
        for f, t in self.fields:
            if f == fname:
                return t
        raise KeyError(fname)

    def has(self, fname):
        return any(f == fname for f, _ in self.fields)

    def __repr__(self):
        return self.name

    def __eq__(self, o):
        return isinstance(o, TStruct) and o.name == self.name

    def __hash__(self):
        return hash(("st", self.name))


class TSeqT(T):
    """Sequence as a first-class element (e.g. a sector used as dict key):
    encoded as an array Int->elem; the length is carried by context (rank)."""

    def __init__(self, elem):
        self.elem = elem

    def sort(self):
        return z3.ArraySort(z3.IntSort(), self.elem.sort())

    def __repr__(self):
        return f"seq[{self.elem}]"

    def __eq__(self, o):
        return isinstance(o, TSeqT) and o.elem == self.elem

    def __hash__(self):
        return hash(("seqt", self.elem))


# ----------------------------------------------------------------------------
# symbolic values


class SV:
    """A symbolic scalar / struct / opaque value."""

    __slots__ = ("t", "ty")

    def __init__(self, t, ty):
        self.t = t
        self.ty = ty

    def __repr__(self):
        return f"SV({self.t}:{self.ty})"


class SymSeq:
    """Immutable symbolic-length sequence (Python tuple or frozen view)."""

    __slots__ = ("length", "arr", "ety", "kind", "meta")

    def __init__(self, length, arr, ety, kind="tuple", meta=None):
        self.length = length  # python int or z3 Int
        self.arr = arr  # z3 Array Int -> ety.sort()
        self.ety = ety
        self.kind = kind
        self.meta = meta  # ghost witnesses (e.g. position maps of a filter comprehension)

    def __repr__(self):
        return f"SymSeq(len={self.length}, {self.ety})"


class SymList:
    """Mutable list with symbolic length; state lives in the cell."""

    __slots__ = ("length", "arr", "ety")

    def __init__(self, length, arr, ety):
        self.length = length
        self.arr = arr
        self.ety = ety

    def snapshot(self, kind="tuple"):
        return SymSeq(self.length, self.arr, self.ety, kind)

    def __repr__(self):
        return f"SymList(len={self.length}, {self.ety})"


class SymDict:
    """Mutable dict with symbolic key set."""

    __slots__ = ("has", "val", "kty", "vty", "name", "size")

    def __init__(self, has, val, kty, vty, name="d", size=None):
        self.has = has  # Array K -> Bool
        self.val = val  # Array K -> V
        self.kty = kty
        self.vty = vty
        self.name = name
        self.size = size  # optional ghost cardinality (z3 Int), maintained by the dict operations

    def state(self):
        return (self.has, self.val)

    def __repr__(self):
        return f"SymDict({self.kty}->{self.vty})"


class SymSet:
    __slots__ = ("has", "kty")

    def __init__(self, has, kty):
        self.has = has
        self.kty = kty


class SymObj:
    """An object with concrete identity and named fields (possibly symbolic values)."""

    def __init__(self, cls, fields=None, tag=None):
        self.cls = cls  # ClassVal or None
        self.fields = dict(fields or {})
        self.tag = tag

    def __repr__(self):
        return f"SymObj({getattr(self.cls, 'name', None)}#{self.tag})"


class KeyIter:
    """Abstract iterable over the key set of a dict snapshot (any order)."""

    def __init__(self, has, kty, val=None, vty=None, mode="keys"):
        self.has = has
        self.kty = kty
        self.val = val
        self.vty = vty
        self.mode = mode  # keys | items | values


class Unsupported(Exception):
    pass


class PathEnd(Exception):
    """Current path is infeasible / deliberately cut (assume False)."""


class PyRaise(Exception):
    """A Python exception raised by the interpreted program."""

    def __init__(self, exc, msg="", lineno=None):
        super().__init__(exc)
        self.exc = exc
        self.msg = msg
        self.lineno = lineno


EXC_PARENTS = {
    "KeyError": "LookupError",
    "IndexError": "LookupError",
    "LookupError": "Exception",
    "ValueError": "Exception",
    "TypeError": "Exception",
    "AttributeError": "Exception",
    "NotImplementedError": "RuntimeError",
    "RuntimeError": "Exception",
    "ImportError": "Exception",
    "StopIteration": "Exception",
    "AssertionError": "Exception",
    "ZeroDivisionError": "ArithmeticError",
    "ArithmeticError": "Exception",
    "Exception": "BaseException",
    "GeneratorExit": "BaseException",
}


def exc_matches(exc, handler):
    e = exc
    while e is not None:
        if e == handler:
            return True
        e = EXC_PARENTS.get(e)
    return False


# ----------------------------------------------------------------------------
# obligations & exploration


class Obligation:
    __slots__ = ("name", "hyps", "goal", "meta", "status", "model", "time", "backend", "reason", "witness")

    def __init__(self, name, hyps, goal, meta=None):
        self.name = name
        self.hyps = list(hyps)
        self.goal = goal
        self.meta = meta or {}
        self.status = None
        self.model = None
        self.time = 0.0
        self.backend = None
        self.reason = ""
        self.witness = None


class Ctx:
    """State of one path of one task.  Paths are explored by re-execution with a
    decision prefix (DFS); obligations are de-duplicated by (site, decision prefix)."""

    def __init__(self, task_name, feas_timeout_ms=2000):
        self.task_name = task_name
        self.worklist = [[]]
        self.obligations = {}
        self.paths_done = 0
        self.feas_timeout_ms = feas_timeout_ms
        self.axioms = []  # global background axioms (ghost definitions), added to every query
        self.covers = []
        self.notes = []
        # optional, set by a task body: {"hints": [z3 bool], "terms": {name: z3 term | [z3 terms]}} -- when an
        # obligation is refuted the query is re-solved with the hints (to get a small counterexample, if
        # there is one) and the terms are evaluated in the model (input for the native replay)
        self.witness = None
        self.reset_path([])

    # -- path
    def reset_path(self, prefix):
        self.prefix = list(prefix)
        self.decisions = []
        self.pc = []
        self.counter = itertools.count()
        self.names = {}
        self.path_tags = []

    def fresh_name(self, base):
        n = self.names.get(base, 0)
        self.names[base] = n + 1
        return f"{base}!{n}"

    def fresh(self, base, ty):
        return z3.Const(self.fresh_name(base), ty.sort())

    def assume(self, term):
        if term is True:
            return
        if term is False:
            raise PathEnd()
        self.pc.append(term)

    def feasible(self, extra=None):
        s = z3.Solver()
        s.set("timeout", self.feas_timeout_ms)
        for a in self.axioms:
            s.add(a)
        for p in self.pc:
            s.add(p)
        if extra is not None:
            s.add(extra)
        r = s.check()
        return r != z3.unsat

    def decide(self, n_options, feas_terms=None, tag=""):
        """Pick one of n options; schedules the others.  feas_terms[i] is the z3
        condition of option i (None = no condition)."""
        d = len(self.decisions)
        if d < len(self.prefix):
            choice = self.prefix[d]
        else:
            feas = []
            for i in range(n_options):
                c = feas_terms[i] if feas_terms else None
                if c is None or self.feasible(c):
                    feas.append(i)
            if not feas:
                raise PathEnd()
            choice = feas[0]
            for alt in feas[1:]:
                self.worklist.append(self.decisions + [alt])
        self.decisions.append(choice)
        self.path_tags.append(f"{tag}={choice}")
        return choice

    def branch(self, cond, tag="if"):
        """cond: python bool or z3 Bool.  Returns python bool; adds to pc."""
        if isinstance(cond, bool):
            return cond
        cond = z3.simplify(cond)
        if z3.is_true(cond):
            return True
        if z3.is_false(cond):
            return False
        c = self.decide(2, [cond, z3.Not(cond)], tag)
        if c == 0:
            self.pc.append(cond)
            return True
        self.pc.append(z3.Not(cond))
        return False

    # -- obligations
    def oblige(self, name, goal, meta=None):
        key = (name, tuple(self.decisions))
        if key in self.obligations:
            return
        if isinstance(goal, bool):
            goal = z3.BoolVal(goal)
        m = dict(meta or {})
        m["path"] = ",".join(self.path_tags[-12:])
        m["_witness"] = self.witness  # the witness spec in force where the obligation arises
        self.obligations[key] = Obligation(name, self.pc, goal, m)

    def cover(self, name, term=None):
        """Reachability check: current pc (and term) must be satisfiable."""
        self.covers.append((name, list(self.pc), term))


def conj(terms):
    terms = [t for t in terms if t is not True]
    if not terms:
        return z3.BoolVal(True)
    if len(terms) == 1:
        return terms[0]
    return z3.And(*terms)


def _eval_witness(m, terms):
    def ev(t):
        v = m.eval(t, model_completion=True)
        if z3.is_int_value(v):
            return v.as_long()
        if z3.is_rational_value(v):
            return [v.numerator_as_long(), v.denominator_as_long()]
        if z3.is_true(v) or z3.is_false(v):
            return z3.is_true(v)
        return str(v)

    def walk(t):
        return [walk(x) for x in t] if isinstance(t, (list, tuple)) else ev(t)

    return {k: walk(t) for k, t in terms.items()}


def discharge(ob, axioms, timeout_ms=20000, witness=None):
    """Try to prove hyps => goal.  Returns status in {proved, refuted, unknown}."""
    t0 = time.time()
    s = z3.Solver()
    s.set("timeout", timeout_ms)
    for a in axioms:
        s.add(a)
    for h in ob.hyps:
        s.add(h)
    s.add(z3.Not(ob.goal))
    r = None
    m = None
    if witness and witness.get("hints"):
        # cheap search for a SMALL counterexample first (a model of the query plus the size hints is a model
        # of the query): quick, stable refutations with replayable inputs; says nothing if there is none
        s.push()
        s.set("timeout", min(timeout_ms, 5000))
        for h in witness["hints"]:
            s.add(h)
        if s.check() == z3.sat:
            r, m = z3.sat, s.model()
        s.pop()
        s.set("timeout", timeout_ms)
    if r is None:
        r = s.check()
        if r == z3.sat:
            try:
                m = s.model()
            except Exception:
                m = None
    ob.time = time.time() - t0
    ob.backend = "z3"
    if r == z3.unsat:
        ob.status = "proved"
    elif r == z3.sat:
        ob.status = "refuted"
        ob.model = m
        if witness and m is not None:
            try:
                ob.witness = _eval_witness(m, witness.get("terms", {}))
            except Exception as e:  # the witness is a convenience for the replay only
                ob.witness = {"error": f"{type(e).__name__}: {e}"}
    else:
        ob.status = "unknown"
        ob.reason = s.reason_unknown()
        # second opinion: cvc5 on the SMT-LIB text
        try:
            st = _cvc5_check(s.to_smt2(), timeout_ms * 2)
            if st == "unsat":
                ob.status = "proved"
                ob.backend = "cvc5"
            ob.time = time.time() - t0
        except Exception as e:  # pragma: no cover
            ob.reason += f"; cvc5: {e}"
    return ob.status


def _cvc5_check(smt2, timeout_ms):
    import subprocess
    import tempfile

    with tempfile.NamedTemporaryFile("w", suffix=".smt2", delete=True) as f:
        f.write("(set-logic ALL)\n" + smt2)
        f.flush()
        p = subprocess.run(
            ["/usr/bin/cvc5", f"--tlimit={timeout_ms}", f.name],
            capture_output=True,
            text=True,
            timeout=timeout_ms / 1000 + 5,
        )
    out = p.stdout.strip().splitlines()
    return out[0] if out else "unknown"
