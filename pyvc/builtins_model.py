"""Models of Python builtins, container operations, comprehensions and invariant loops.

Every model here is part of assumption A-builtins (listed in the evidence) and is
cross-checked against CPython by pyvc/crosscheck.py.
"""

import ast

import z3

from .core import (
    SV,
    KeyIter,
    PathEnd,
    PyRaise,
    SymDict,
    SymList,
    SymObj,
    SymSeq,
    SymSet,
    TBool,
    TInt,
    TOpaque,
    TReal,
    TSeqT,
    TStruct,
    Unsupported,
)

SLICE = TStruct("Slice", [("lo", TInt), ("hi", TInt)])
_tuple_types = {}


def tuple_type(types):
    key = tuple(repr(t) for t in types)
    if key not in _tuple_types:
        name = "Tup_" + "_".join(k.replace("[", "L").replace("]", "R") for k in key)
        _tuple_types[key] = TStruct(name, [(f"f{i}", t) for i, t in enumerate(types)])
    return _tuple_types[key]


OPTINT = TStruct("OptInt", [("isnone", TBool), ("val", TInt)])  # Optional[int] as a container element (see Interp.lift / unwrap)


def opt_none():
    return OPTINT.make(z3.BoolVal(True), z3.IntVal(0))


def opt_some(t):
    return OPTINT.make(z3.BoolVal(False), t)


# ghost folds (uninterpreted; recursive axioms are added by tasks that need them)
_fold_fns = {}


def SUM_fn(real=False):
    k = "SUMR" if real else "SUM"
    if k not in _fold_fns:
        es = z3.RealSort() if real else z3.IntSort()
        _fold_fns[k] = z3.Function(k, z3.ArraySort(z3.IntSort(), es), z3.IntSort(), es)
    return _fold_fns[k]


def fold_axioms(real=False):
    """SUM(a,0)=0 ; SUM(a,k+1)=SUM(a,k)+a[k]   (definition of the ghost fold)"""
    S = SUM_fn(real)
    es = z3.RealSort() if real else z3.IntSort()
    a = z3.Const("a!ax", z3.ArraySort(z3.IntSort(), es))
    k = z3.Int("k!ax")
    return [
        z3.ForAll([a], S(a, 0) == 0),
        z3.ForAll([a, k], z3.Implies(k >= 0, S(a, k + 1) == S(a, k) + a[k]), patterns=[S(a, k + 1)]),
    ]


def sel(arr, i):
    t = z3.Select(arr, i)
    if z3.is_quantifier(arr) or z3.is_app_of(arr, z3.Z3_OP_STORE) or True:
        t = z3.simplify(t)
    return t


def zmax(a, b):
    return z3.If(a >= b, a, b)


def zmin(a, b):
    return z3.If(a <= b, a, b)


def zlen(x):
    return z3.IntVal(x) if isinstance(x, int) else x


# ----------------------------------------------------------------------------


def make_builtins(I):
    from .interp import BuiltinVal, I as toI

    B = {}

    def reg(name):
        def deco(fn):
            B[name] = BuiltinVal(name, fn)
            return fn

        return deco

    class TypeMarker:
        def __init__(self, name):
            self.name = name

    for tn in ("int", "tuple", "list", "dict", "str", "bool", "float", "set", "frozenset", "type", "object", "slice", "complex"):
        pass

    @reg("len")
    def _len(it, a, k):
        return length_of(it, a[0])

    @reg("isinstance")
    def _isinstance(it, a, k):
        return isinstance_model(it, a[0], a[1])

    @reg("int")
    def _int(it, a, k):
        v = a[0]
        if isinstance(v, bool):
            return int(v)
        if isinstance(v, int):
            return v
        if isinstance(v, float):
            return int(v)
        if isinstance(v, SV):
            if v.ty is TInt:
                return v
            if v.ty is TBool:
                return SV(toI(v), TInt)
            if v.ty is TReal:
                # int() truncates toward zero
                f = z3.ToInt(v.t)
                return SV(z3.If(v.t >= 0, f, -z3.ToInt(-v.t)), TInt)
        raise Unsupported(f"int({v!r})")

    @reg("float")
    def _float(it, a, k):
        from .interp import R

        v = a[0]
        if isinstance(v, (int, float)):
            return float(v)
        return SV(R(v), TReal)

    @reg("bool")
    def _bool(it, a, k):
        t = it.truth(a[0]) if a else False
        return t if isinstance(t, bool) else SV(t, TBool)

    @reg("abs")
    def _abs(it, a, k):
        v = a[0]
        if isinstance(v, (int, float)):
            return abs(v)
        if isinstance(v, SV) and v.ty is TInt:
            return SV(z3.If(v.t >= 0, v.t, -v.t), TInt)
        if isinstance(v, SV) and v.ty is TReal:
            return SV(z3.If(v.t >= 0, v.t, -v.t), TReal)
        raise Unsupported("abs")

    @reg("min")
    def _min(it, a, k):
        return minmax(it, a, k, False)

    @reg("max")
    def _max(it, a, k):
        return minmax(it, a, k, True)

    @reg("sum")
    def _sum(it, a, k):
        if isinstance(a[0], DictGen):
            h = getattr(it, "dictgen_sum", None)
            if h is None:
                raise Unsupported("sum over a generator of dict items needs a contract-level summary")
            return h(it, a[0], a[1] if len(a) > 1 else 0)
        return sum_model(it, a[0], a[1] if len(a) > 1 else 0)

    @reg("all")
    def _all(it, a, k):
        return allany(it, a[0], True)

    @reg("any")
    def _any(it, a, k):
        return allany(it, a[0], False)

    @reg("tuple")
    def _tuple(it, a, k):
        if not a:
            return ()
        return to_tuple(it, a[0])

    @reg("list")
    def _list(it, a, k):
        if not a:
            return []
        v = a[0]
        items = concrete_iter(it, v)
        if items is not None:
            return list(items)
        s = to_symseq(it, v)
        return SymList(s.length, s.arr, s.ety)

    @reg("dict")
    def _dict(it, a, k):
        if not a:
            return dict(k)
        v = a[0]
        if isinstance(v, dict):
            return dict(v)
        if isinstance(v, SymDict):
            return SymDict(v.has, v.val, v.kty, v.vty, v.name)
        if isinstance(v, KeyIter) and v.mode == "items":
            return SymDict(v.has, v.val, v.kty, v.vty, "dict_of_items")
        items = concrete_iter(it, v)
        if items is not None:
            out = {}
            for kv in items:
                kk, vv = unpack(it, kv, [None, None])
                out[kk] = vv
            return out
        raise Unsupported("dict() of symbolic iterable")

    @reg("set")
    def _set(it, a, k):
        if not a:
            return set()
        v = a[0]
        items = concrete_iter(it, v)
        if items is not None:
            if any(is_symval(x) for x in items):
                raise Unsupported("set of symbolic values")
            return set(items)
        if isinstance(v, KeyIter) and v.mode == "keys":
            return SymSet(v.has, v.kty)
        if isinstance(v, KeyIter) and v.mode == "values":
            return SymSet(image_set(it, v), v.vty)
        s = to_symseq(it, v)
        j = it.ctx.fresh("j", TInt)
        x = z3.Const(it.ctx.fresh_name("x"), s.ety.sort())
        has = z3.Lambda([x], z3.Exists([j], z3.And(j >= 0, j < zlen(s.length), z3.Select(s.arr, j) == x)))
        return SymSet(has, s.ety)

    @reg("range")
    def _range(it, a, k):
        if all(isinstance(x, int) for x in a):
            return range(*a)
        if len(a) == 1:
            lo, hi, st = 0, a[0], 1
        elif len(a) == 2:
            lo, hi, st = a[0], a[1], 1
        else:
            lo, hi, st = a
        if not isinstance(st, int) or st not in (1, -1):
            raise Unsupported("range with symbolic / non-unit step")
        lo, hi = toI(lo), toI(hi)
        i = it.ctx.fresh("ri", TInt)
        if st == 1:
            n = zmax(hi - lo, z3.IntVal(0))
            arr = z3.Lambda([i], lo + i)
        else:
            n = zmax(lo - hi, z3.IntVal(0))
            arr = z3.Lambda([i], lo - i)
        return SymSeq(z3.simplify(n), arr, TInt, "range")

    @reg("enumerate")
    def _enumerate(it, a, k):
        v = a[0]
        items = concrete_iter(it, v)
        if items is not None:
            return [(i, x) for i, x in enumerate(items)]
        s = to_symseq(it, v)
        tt = tuple_type([TInt, s.ety])
        i = it.ctx.fresh("ei", TInt)
        return SymSeq(s.length, z3.Lambda([i], tt.make(i, z3.Select(s.arr, i))), tt, "gen")

    @reg("zip")
    def _zip(it, a, k):
        lists = [concrete_iter(it, v) for v in a]
        if all(l is not None for l in lists):
            return [tuple(t) for t in zip(*lists)]
        # mixed: make everything symbolic
        seqs = [to_symseq(it, v) for v in a]
        tt = tuple_type([s.ety for s in seqs])
        i = it.ctx.fresh("zi", TInt)
        n = zlen(seqs[0].length)
        for s in seqs[1:]:
            n = zmin(n, zlen(s.length))
        return SymSeq(z3.simplify(n), z3.Lambda([i], tt.make(*[z3.Select(s.arr, i) for s in seqs])), tt, "gen")

    @reg("reversed")
    def _reversed(it, a, k):
        v = a[0]
        items = concrete_iter(it, v)
        if items is not None:
            return list(reversed(list(items)))
        s = to_symseq(it, v)
        i = it.ctx.fresh("rv", TInt)
        return SymSeq(s.length, z3.Lambda([i], z3.Select(s.arr, zlen(s.length) - 1 - i)), s.ety, "gen")

    @reg("sorted")
    def _sorted(it, a, k):
        v = a[0]
        if isinstance(v, KeyIter) and not k:
            # sorted(d.items()) / sorted(d): the same entries in sorted order; the model iterates a symbolic
            # dict in EVERY order, which includes the sorted one
            return v
        items = concrete_iter(it, v)
        if items is not None and not any(is_symval(x) for x in items) and not k:
            return sorted(items)
        if items is not None and not any(is_symval(x) for x in items) and set(k) <= {"key", "reverse"} and isinstance(k.get("reverse", False), bool):
            # concrete items with a key function: the keys are computed by interpreting the function; the
            # (stable) sort itself is CPython's, provided every key is concrete
            kf = k.get("key")
            keys = [it.call(kf, [x]) for x in items] if kf is not None else list(items)

            def conc(z):
                return not is_symval(z) and (not isinstance(z, (tuple, list)) or all(conc(y) for y in z))

            if all(conc(z) for z in keys):
                order = sorted(range(len(items)), key=lambda i: keys[i], reverse=k.get("reverse", False))
                return [items[i] for i in order]
        if items is not None and not k and all(isinstance(x, tuple) and x and not is_symval(x[0]) for x in items):
            firsts = [x[0] for x in items]
            if len(set(firsts)) == len(firsts):
                # tuples with distinct concrete first components: the order is decided by them
                return [x for _, x in sorted(zip(firsts, items), key=lambda p: p[0])]
        raise Unsupported("sorted() of symbolic data (needs a summary)")

    @reg("map")
    def _map(it, a, k):
        f = a[0]
        if len(a) == 2 and isinstance(a[1], SV) and isinstance(a[1].ty, TOpaque):
            h = getattr(it, "map_hook", None)
            r = h(it, f, a[1]) if h else None
            if r is not None:
                return r
        if len(a) == 2 and isinstance(a[1], KeyIter) and getattr(it, "dictgen_sum", None) is not None and a[1].mode in ("values", "keys"):
            # map(f, d.values()) over a symbolic dict: element term over ONE generic stored item (see DictGen)
            ki = a[1]
            s_ = z3.Const(it.ctx.fresh_name("dg_key"), ki.kty.sort())
            b_ = z3.Const(it.ctx.fresh_name("dg_val"), ki.vty.sort()) if ki.mode == "values" else None
            it.term_mode += 1
            try:
                v = it.call(f, [it.lift(b_, ki.vty) if ki.mode == "values" else it.lift(s_, ki.kty)])
            finally:
                it.term_mode -= 1
            return DictGen(ki, s_, b_, v, z3.BoolVal(True))
        items = concrete_iter(it, a[1])
        if items is not None and len(a) == 2:
            return [it.call(f, [x]) for x in items]
        if len(a) == 2:
            s = to_symseq(it, a[1])
            return map_symseq(it, s, lambda x: it.call(f, [x]), "gen")
        raise Unsupported("map with several symbolic iterables")

    @reg("getattr")
    def _getattr(it, a, k):
        try:
            return it.getattr(a[0], a[1])
        except PyRaise as e:
            if e.exc == "AttributeError" and len(a) > 2:
                return a[2]
            raise
        except Unsupported:
            if len(a) > 2 and isinstance(a[0], (int, float, SV)):
                return a[2]
            raise

    @reg("hasattr")
    def _hasattr(it, a, k):
        try:
            it.getattr(a[0], a[1])
            return True
        except PyRaise as e:
            if e.exc == "AttributeError":
                return False
            raise

    @reg("hash")
    def _hash(it, a, k):
        # not modelled on purpose: CPython's hash is not injective (hash(-1) == hash(-2), tuples hash by their
        # elements' hashes), so code that uses it as an identity cannot be given a sound functional model here
        raise Unsupported("builtin hash() (not injective: hash(-1) == hash(-2))")

    @reg("callable")
    def _callable(it, a, k):
        from .interp import BoundMethod, BuiltinVal, ClassVal, FuncVal

        v = a[0]
        if isinstance(v, (FuncVal, BoundMethod, BuiltinVal, ClassVal)):
            return True
        if isinstance(v, SymObj):
            return bool(v.fields.get("$callable", False))
        return False

    @reg("next")
    def _next(it, a, k):
        v = a[0]
        items = concrete_iter(it, v)
        if items is not None:
            items = list(items)
            if items:
                return items[0]
            if len(a) > 1:
                return a[1]
            raise PyRaise("StopIteration")
        raise Unsupported("next() of symbolic iterator")

    @reg("iter")
    def _iter(it, a, k):
        return a[0]

    @reg("slice")
    def _slice(it, a, k):
        from .interp import SliceVal

        if len(a) == 1:
            return SliceVal(None, a[0], None)
        return SliceVal(a[0], a[1], a[2] if len(a) > 2 else None)

    @reg("print")
    def _print(it, a, k):
        return None

    @reg("str")
    def _str(it, a, k):
        return "<str>"

    @reg("super")
    def _super(it, a, k):
        from .interp import SuperVal

        return SuperVal(a[0], a[1])

    @reg("type")
    def _type(it, a, k):
        v = a[0]
        if isinstance(v, SymObj):
            return v.cls
        raise Unsupported("type()")

    @reg("id")
    def _id(it, a, k):
        return id(a[0])

    # type names usable in isinstance
    for tn in ("int", "tuple", "list", "dict", "str", "bool", "float", "set"):
        if tn not in B:
            B[tn] = BuiltinVal(tn, lambda it, a, k, tn=tn: (_ for _ in ()).throw(Unsupported(f"{tn}() call")))
    B["property"] = BuiltinVal("property", lambda it, a, k: a[0])
    B["staticmethod"] = BuiltinVal("staticmethod", lambda it, a, k: a[0])
    B["NotImplemented"] = "<NotImplemented>"
    B["True"], B["False"], B["None"] = True, False, None
    return B


def is_symval(x):
    if isinstance(x, (SV, SymSeq, SymList, SymDict, SymObj, SymSet)):
        return True
    if isinstance(x, (tuple, list)):
        return any(is_symval(y) for y in x)
    return False


def isinstance_model(it, v, c):
    from .interp import BuiltinVal, ClassVal, SliceVal

    if isinstance(c, tuple):
        rs = [isinstance_model(it, v, x) for x in c]
        return any(rs)
    if isinstance(c, BuiltinVal):
        n = c.name
        if n == "int":
            return isinstance(v, int) or (isinstance(v, SV) and v.ty in (TInt, TBool))
        if n == "bool":
            return isinstance(v, bool) or (isinstance(v, SV) and v.ty is TBool)
        if n == "float":
            return isinstance(v, float) or (isinstance(v, SV) and v.ty is TReal)
        if n == "tuple":
            return isinstance(v, tuple) or (isinstance(v, SymSeq) and v.kind == "tuple")
        if n == "list":
            return isinstance(v, (list, SymList))
        if n == "dict":
            return isinstance(v, (dict, SymDict))
        if n == "str":
            return isinstance(v, str)
        if n == "set":
            return isinstance(v, (set, SymSet))
        if n == "slice":
            return isinstance(v, SliceVal)
        raise Unsupported(f"isinstance(.., {n})")
    if isinstance(c, ClassVal):
        if isinstance(v, SymObj):
            return v.cls is not None and v.cls.is_subclass(c)
        if isinstance(v, SV) and isinstance(v.ty, TStruct) and v.ty.cls:
            m, n = v.ty.cls.split(".")
            return it.get_class(m, n).is_subclass(c)
        return False
    raise Unsupported(f"isinstance with {c!r}")


def length_of(it, v):
    if isinstance(v, (SymSeq, SymList)):
        return v.length if isinstance(v.length, int) else SV(v.length, TInt)
    if isinstance(v, (list, tuple, dict, set, str, range)):
        return len(v)
    if isinstance(v, SymDict):
        if v.size is not None:
            return SV(v.size, TInt)
        raise Unsupported("len() of symbolic dict without ghost size")
    if isinstance(v, SymObj) and "$len" in v.fields:
        return v.fields["$len"]
    if isinstance(v, SV) and isinstance(v.ty, TOpaque):
        h = getattr(it, "opaque_len", {}).get(v.ty.name)
        if h is not None:
            return h(v)
    raise Unsupported(f"len of {type(v).__name__}")


def concrete_iter(it, v):
    """python list of items if `v` is iterable with concrete structure, else None"""
    from .interp import GenVal

    if isinstance(v, (list, tuple, range, set)):
        return list(v)
    if isinstance(v, dict):
        return list(v.keys())
    if isinstance(v, str):
        return list(v)
    if isinstance(v, DictView):
        return v.items()
    if isinstance(v, GenVal):
        return it.expand_generator(v)
    if isinstance(v, (SymSeq, SymList)) and isinstance(v.length, int):
        return [it.lift(sel(v.arr, i), v.ety) for i in range(v.length)]
    return None


class DictView:
    def __init__(self, d, mode):
        self.d, self.mode = d, mode

    def items(self):
        if self.mode == "keys":
            return list(self.d.keys())
        if self.mode == "values":
            return list(self.d.values())
        return [(k, v) for k, v in self.d.items()]


def to_symseq(it, v):
    if isinstance(v, SymSeq):
        return v
    if isinstance(v, SymObj) and "$seq" in v.fields:
        return v.fields["$seq"]  # contract-level object that iterates as this sequence (e.g. the keys of an ordered dict)
    if isinstance(v, SymList):
        return v.snapshot()
    items = concrete_iter(it, v)
    if items is not None:
        if not items:
            raise Unsupported("empty concrete sequence to symbolic (unknown element type)")
        ty = it.type_of(items[0])
        arr = z3.K(z3.IntSort(), it.default_term(ty))
        for i, x in enumerate(items):
            arr = z3.Store(arr, i, it.unwrap(x, ty))
        return SymSeq(len(items), arr, ty)
    raise Unsupported(f"not a sequence: {type(v).__name__}")


def to_tuple(it, v):
    items = concrete_iter(it, v)
    if items is not None:
        return tuple(items)
    if isinstance(v, (SymSeq, SymList)):
        return SymSeq(v.length, v.arr, v.ety, "tuple", getattr(v, "meta", None))
    if isinstance(v, (KeyIter, DictGen)):
        return v
    if isinstance(v, SymObj) and "$tuple" in v.fields:
        return v.fields["$tuple"]
    if isinstance(v, SV) and isinstance(v.ty, (TOpaque, TSeqT)):
        return v  # opaque sequence-like ghost value (e.g. parities of a sector)
    raise Unsupported(f"tuple() of {type(v).__name__}")


def map_symseq(it, s, fn, kind):
    i = it.ctx.fresh("mi", TInt)
    x = it.lift(z3.Select(s.arr, i), s.ety)
    it.term_mode += 1
    try:
        v = fn(x)
    finally:
        it.term_mode -= 1
    ty = it.type_of(v)
    return SymSeq(s.length, z3.Lambda([i], it.unwrap(v, ty)), ty, kind)


def minmax(it, a, k, is_max):
    from .interp import I as toI

    if len(a) == 1:
        items = concrete_iter(it, a[0])
        if items is None:
            raise Unsupported("min/max of symbolic iterable")
        a = items
    if not a:
        raise PyRaise("ValueError", "min/max of empty")
    if all(not is_symval(x) for x in a):
        return (max if is_max else min)(a)
    r = toI(a[0])
    for x in a[1:]:
        x = toI(x)
        r = zmax(r, x) if is_max else zmin(r, x)
    return SV(z3.simplify(r), TInt)


def sum_model(it, v, start=0):
    from .interp import I as toI, R, simp

    items = concrete_iter(it, v)
    if items is not None:
        r = start
        for x in items:
            r = it.binop(ast.Add, r, x)
        return r
    s = to_symseq(it, v)
    if s.ety in (TInt, TBool):
        arr = s.arr
        if s.ety is TBool:
            i = it.ctx.fresh("si", TInt)
            arr = z3.Lambda([i], z3.If(z3.Select(s.arr, i), 1, 0))
        r = SUM_fn()(arr, zlen(s.length))
        it.ctx.notes.append("fold:int")
        return it.binop(ast.Add, start, SV(r, TInt)) if start != 0 else SV(r, TInt)
    if s.ety is TReal:
        r = SUM_fn(True)(s.arr, zlen(s.length))
        return SV(r, TReal)
    raise Unsupported(f"sum of {s.ety}")


def allany(it, v, is_all):
    items = concrete_iter(it, v)
    if items is not None:
        ts = []
        for x in items:
            t = it.truth(x)
            if isinstance(t, bool):
                if is_all and not t:
                    return False
                if (not is_all) and t:
                    return True
            else:
                ts.append(t)
        if not ts:
            return is_all
        return SV(z3.And(*ts) if is_all else z3.Or(*ts), TBool)
    s = to_symseq(it, v)
    j = it.ctx.fresh("qa", TInt)
    body = it.truth(it.lift(sel(s.arr, j), s.ety))
    body = z3.BoolVal(body) if isinstance(body, bool) else body
    rng = z3.And(j >= 0, j < zlen(s.length))
    if is_all:
        return SV(z3.ForAll([j], z3.Implies(rng, body)), TBool)
    return SV(z3.Exists([j], z3.And(rng, body)), TBool)


# ----------------------------------------------------------------------------
# container access


def norm_index(it, seq, idx, lineno=None):
    """Python index semantics with IndexError branch; returns z3 Int / python int."""
    from .interp import I as toI

    n = seq.length
    if isinstance(idx, int) and isinstance(n, int):
        if not (-n <= idx < n):
            raise PyRaise("IndexError", "index out of range", lineno)
        return idx % n if n else idx
    i = toI(idx)
    nn = zlen(n)
    ok = z3.And(i >= -nn, i < nn)
    if it.term_mode:
        # under a bound variable no path split is possible: emit the safety fact as an
        # obligation-free assumption is NOT allowed; require the caller context to make it total
        return z3.If(i >= 0, i, i + nn)
    if not it.ctx.branch(ok, f"idx{lineno}"):
        raise PyRaise("IndexError", "index out of range", lineno)
    if isinstance(idx, int):
        return idx if idx >= 0 else z3.simplify(nn + idx)
    return z3.simplify(z3.If(i >= 0, i, i + nn))


def getitem(it, obj, key, lineno=None):
    from .interp import I as toI, SliceVal

    if isinstance(obj, (SymSeq, SymList)):
        if isinstance(key, SliceVal):
            return getslice(it, obj, key.lo, key.hi, key.step)
        i = norm_index(it, obj, key, lineno)
        return it.lift(sel(obj.arr, i), obj.ety)
    if isinstance(obj, SymDict):
        k = it.unwrap(key, obj.kty)
        present = z3.Select(obj.has, k)
        if it.term_mode:
            return it.lift(sel(obj.val, k), obj.vty)
        if not it.ctx.branch(present, f"key{lineno}"):
            raise PyRaise("KeyError", "key", lineno)
        return it.lift(sel(obj.val, k), obj.vty)
    if isinstance(obj, (list, tuple, str, range)):
        if isinstance(key, SliceVal):
            return getslice(it, obj, key.lo, key.hi, key.step)
        if isinstance(key, int):
            try:
                return obj[key]
            except IndexError:
                raise PyRaise("IndexError", "index out of range", lineno)
        if isinstance(key, SV) and key.ty in (TInt, TBool):
            # symbolic index into concrete sequence: case split
            n = len(obj)
            i = toI(key)
            for c in range(-n, n):
                if it.term_mode:
                    break
                if it.ctx.branch(i == c, f"idxc{lineno}"):
                    return obj[c]
            if it.term_mode:
                r = None
                for c in range(n - 1, -1, -1):
                    r = obj[c] if r is None else it.ite(z3.Or(i == c, i == c - n), obj[c], r)
                return r
            raise PyRaise("IndexError", "index out of range", lineno)
        raise Unsupported(f"index {key!r}")
    if isinstance(obj, dict):
        if is_symval(key) and not isinstance(key, (SymObj, SymSeq)):
            return adict_get(it, obj, key, lineno)
        try:
            return obj[key]
        except KeyError:
            raise PyRaise("KeyError", repr(key), lineno)
        except TypeError:
            raise Unsupported(f"unhashable key {key!r}")
    if isinstance(obj, SV) and isinstance(obj.ty, TSeqT):
        return it.lift(sel(obj.t, toI(key)), obj.ty.elem)
    if isinstance(obj, SV) and isinstance(obj.ty, TStruct) and obj.ty.name.startswith("Tup"):
        return it.lift(obj.ty.get(obj.t, f"f{key}"), obj.ty.fields[key][1])
    if isinstance(obj, SV) and isinstance(obj.ty, TOpaque):
        h = it.opaque_getitem.get(obj.ty.name) if hasattr(it, "opaque_getitem") else None
        if h:
            return h(it, obj, key)
    if isinstance(obj, SymObj) and "$getitem" in obj.fields:
        return obj.fields["$getitem"](it, obj, key)
    raise Unsupported(f"subscript of {type(obj).__name__}")


def adict_get(it, d, key, lineno):
    """concrete dict whose stored keys are concrete, looked up with a symbolic key"""
    for k in list(d.keys()):
        c = compare(it, ast.Eq, key, k)
        if isinstance(c, bool):
            if c:
                return d[k]
            continue
        if it.ctx.branch(c, f"adict{lineno}"):
            return d[k]
    raise PyRaise("KeyError", "key", lineno)


def simp_int(z):
    from .interp import simp

    z = simp(z) if isinstance(z, SV) else z
    return z


def setitem(it, obj, key, v):
    from .interp import I as toI, SliceVal

    if isinstance(obj, SymList):
        i = norm_index(it, obj, key)
        obj.arr = z3.Store(obj.arr, i, it.unwrap(v, obj.ety))
        return
    if isinstance(obj, SymDict):
        k = it.unwrap(key, obj.kty)
        if obj.size is not None:
            obj.size = z3.simplify(obj.size + z3.If(z3.Select(obj.has, k), 0, 1))
        obj.has = z3.Store(obj.has, k, z3.BoolVal(True))
        obj.val = z3.Store(obj.val, k, it.unwrap(v, obj.vty))
        return
    if isinstance(obj, list) and isinstance(key, SliceVal):
        # lst[a:b] = iterable with concrete bounds (python semantics of slice assignment)
        lo, hi, st = (simp_int(z) for z in (key.lo, key.hi, key.step))
        if any(isinstance(z, SV) for z in (lo, hi, st)):
            raise Unsupported("slice assignment with symbolic bounds")
        items = [v] if False else (list(v) if isinstance(v, (str, list, tuple)) else concrete_iter(it, v))
        if items is None:
            raise Unsupported("slice assignment from a symbolic iterable")
        try:
            obj[slice(lo, hi, st)] = items
        except ValueError as e:
            raise PyRaise("ValueError", str(e))
        return
    if isinstance(obj, list):
        if isinstance(key, int):
            try:
                obj[key] = v
            except IndexError:
                raise PyRaise("IndexError", "assignment index out of range")
            return
        if isinstance(key, SV) and key.ty in (TInt, TBool) and not it.term_mode:
            # symbolic index into a concrete list: case split over the positions (python semantics incl. negative
            # indices); out of range -> IndexError
            n = len(obj)
            i = toI(key)
            for c in range(-n, n):
                if it.ctx.branch(i == c, "idxstore"):
                    obj[c] = v
                    return
            raise PyRaise("IndexError", "assignment index out of range")
        raise Unsupported("symbolic index store into concrete list")
    if isinstance(obj, dict):
        if is_symval(key) and not isinstance(key, (SymObj, SymSeq)):
            raise Unsupported("symbolic key store into concrete dict")
        obj[key] = v  # SymObj / SymSeq tokens are keys by identity
        return
    if isinstance(obj, SymObj) and "$setitem" in obj.fields:
        return obj.fields["$setitem"](it, obj, key, v)
    raise Unsupported(f"item assignment on {type(obj).__name__}")


def delitem(it, obj, key):
    if isinstance(obj, SymDict):
        k = it.unwrap(key, obj.kty)
        if not it.ctx.branch(z3.Select(obj.has, k), "delkey"):
            raise PyRaise("KeyError", "del key")
        obj.has = z3.Store(obj.has, k, z3.BoolVal(False))
        if obj.size is not None:
            obj.size = z3.simplify(obj.size - 1)
        return
    if isinstance(obj, dict):
        if is_symval(key):
            raise Unsupported("symbolic key delete from concrete dict")
        try:
            del obj[key]
        except KeyError:
            raise PyRaise("KeyError", repr(key))
        return
    if isinstance(obj, list) and isinstance(key, int):
        del obj[key]
        return
    raise Unsupported("del item")


def getslice(it, obj, lo, hi, step):
    from .interp import I as toI

    if isinstance(obj, (list, tuple, str, range)) and all(x is None or isinstance(x, int) for x in (lo, hi, step)):
        return obj[slice(lo, hi, step)]
    if isinstance(obj, (list, tuple)) and step is None:
        # concrete container, symbolic bounds -> go symbolic
        obj = to_symseq(it, obj)
    if isinstance(obj, SV) and isinstance(obj.ty, TOpaque):
        h = getattr(it, "opaque_slice", {}).get(obj.ty.name)
        if h is not None:
            return h(it, obj, lo, hi, step)
    if not isinstance(obj, (SymSeq, SymList)):
        raise Unsupported("slice of " + type(obj).__name__)
    n = zlen(obj.length)
    if step is not None:
        if step == -1 and lo is None and hi is None:
            i = it.ctx.fresh("sl", TInt)
            return SymSeq(obj.length, z3.Lambda([i], z3.Select(obj.arr, n - 1 - i)), obj.ety, "tuple")
        raise Unsupported("slice step")

    def norm(x, dflt):
        if x is None:
            return dflt
        x = toI(x)
        return z3.If(x < 0, zmax(x + n, z3.IntVal(0)), zmin(x, n))

    l = z3.simplify(norm(lo, z3.IntVal(0)))
    h = z3.simplify(norm(hi, n))
    ln = z3.simplify(zmax(h - l, z3.IntVal(0)))
    i = it.ctx.fresh("sl", TInt)
    kind = "tuple" if isinstance(obj, SymSeq) and obj.kind == "tuple" else "list"
    arr = z3.Lambda([i], z3.Select(obj.arr, l + i))
    if z3.is_int_value(ln):
        ln = ln.as_long()
    if isinstance(obj, SymList):
        return SymList(ln, arr, obj.ety)
    return SymSeq(ln, arr, obj.ety, kind)


def concat_parts(it, parts, kind):
    """[(one, v) | (star, seq)] -> SymSeq/SymList"""
    ety = None
    for k, v in parts:
        if k == "star":
            ety = to_symseq(it, v).ety
            break
    n = z3.IntVal(0)
    i = it.ctx.fresh("cc", TInt)
    pieces = []  # (start, length, fn(i)->term)
    for k, v in parts:
        if k == "one":
            t = it.unwrap(v, ety)
            pieces.append((n, z3.IntVal(1), (lambda t: (lambda off: t))(t)))
            n = n + 1
        else:
            s = to_symseq(it, v)
            if s.ety != ety:
                raise Unsupported("concatenation of sequences with different element types")
            pieces.append((n, zlen(s.length), (lambda s: (lambda off: z3.Select(s.arr, off)))(s)))
            n = n + zlen(s.length)
    body = it.default_term(ety)
    for start, ln, fn in reversed(pieces):
        body = z3.If(z3.And(i >= start, i < start + ln), fn(i - start), body)
    arr = z3.Lambda([i], body)
    n = z3.simplify(n)
    if z3.is_int_value(n):
        n = n.as_long()
    if kind == "list":
        return SymList(n, arr, ety)
    return SymSeq(n, arr, ety, "tuple")


def unpack(it, v, targets):
    n = len(targets)
    star = [i for i, t in enumerate(targets) if isinstance(t, ast.Starred)]
    if isinstance(v, SymDict) and not star and n == 1 and not it.term_mode:
        # (k,) = d : d must have exactly one key.  Split on "some key w is the only one"; the witness is fresh.
        w = z3.Const(it.ctx.fresh_name("onlykey"), v.kty.sort())
        q = z3.Const(it.ctx.fresh_name("uq"), v.kty.sort())
        exactly_one = z3.And(z3.Select(v.has, w), z3.ForAll([q], z3.Implies(z3.Select(v.has, q), q == w)))
        choice = it.ctx.decide(2, None, "unpack1")
        if choice == 0:
            it.ctx.assume(exactly_one)
            return [it.lift(w, v.kty)]
        # not exactly one key: no key at all, or two different ones
        a_, b_ = z3.Const(it.ctx.fresh_name("ka"), v.kty.sort()), z3.Const(it.ctx.fresh_name("kb"), v.kty.sort())
        it.ctx.assume(z3.Or(z3.ForAll([q], z3.Not(z3.Select(v.has, q))), z3.And(z3.Select(v.has, a_), z3.Select(v.has, b_), a_ != b_)))
        raise PyRaise("ValueError", "unpack of a dict that does not have exactly one key")
    items = concrete_iter(it, v)
    if items is not None:
        if star:
            s = star[0]
            after = n - s - 1
            if len(items) < n - 1:
                raise PyRaise("ValueError", "not enough values to unpack")
            return items[:s] + [list(items[s : len(items) - after])] + items[len(items) - after :]
        if len(items) != n:
            raise PyRaise("ValueError" if True else "", f"unpack {len(items)} into {n}")
        return items
    if isinstance(v, SV) and isinstance(v.ty, TStruct) and v.ty.name.startswith("Tup"):
        if len(v.ty.fields) != n:
            raise PyRaise("ValueError", "unpack arity")
        return [it.lift(v.ty.get(v.t, f), ft) for f, ft in v.ty.fields]
    if isinstance(v, SV) and isinstance(v.ty, TStruct) and v.ty.name == "Edge":
        return [it.lift(v.ty.get(v.t, f), ft) for f, ft in v.ty.fields]
    if isinstance(v, (SymSeq, SymList)):
        ln = zlen(v.length)
        if star:
            s = star[0]
            after = n - s - 1
            if not it.ctx.branch(ln >= n - 1, "unpack*"):
                raise PyRaise("ValueError", "not enough values to unpack")
            out = []
            for j in range(s):
                out.append(it.lift(sel(v.arr, j), v.ety))
            mid = getslice(it, v, s, SV(ln - after, TInt) if after else None, None)
            out.append(mid)
            for j in range(after):
                out.append(it.lift(sel(v.arr, ln - after + j), v.ety))
            return out
        if not it.ctx.branch(ln == n, "unpack"):
            raise PyRaise("ValueError", "unpack arity")
        return [it.lift(sel(v.arr, j), v.ety) for j in range(n)]
    if isinstance(v, (int, float, SV)) or v is None:
        raise PyRaise("TypeError", "cannot unpack non-iterable")
    if isinstance(v, SymObj) and v.fields.get("$scalar"):
        raise PyRaise("TypeError", "cannot unpack non-iterable")
    raise Unsupported(f"unpack of {type(v).__name__}")


# ----------------------------------------------------------------------------
# dict helpers


def dict_nonempty(it, d):
    w = z3.Const(it.ctx.fresh_name("wit"), d.kty.sort())
    k = z3.Const(it.ctx.fresh_name("k"), d.kty.sort())
    it.ctx.assume(z3.ForAll([k], z3.Implies(z3.Select(d.has, k), z3.Select(d.has, w))))
    return z3.Select(d.has, w)


def get_method(it, obj, name):
    from .interp import BuiltinVal

    def B(fn):
        return BuiltinVal(f"{type(obj).__name__}.{name}", fn)

    if isinstance(obj, SV) and isinstance(obj.ty, TOpaque):
        # methods of modelled opaque values (e.g. ndarray.reshape) are supplied by the contract
        h = getattr(it, "opaque_methods", {}).get((obj.ty.name, name))
        if h is not None:
            return B(lambda it_, a, k: h(it_, obj, a, k))
    if isinstance(obj, SymDict):
        d = obj
        if name == "get":
            def f(it, a, k):
                kk = it.unwrap(a[0], d.kty)
                dflt = a[1] if len(a) > 1 else k.get("default", None)
                present = z3.Select(d.has, kk)
                if dflt is None:
                    if it.term_mode:
                        raise Unsupported("dict.get(k, None) under bound variable")
                    if it.ctx.branch(present, "get"):
                        return it.lift(sel(d.val, kk), d.vty)
                    return None
                return it.ite(z3.simplify(present), it.lift(sel(d.val, kk), d.vty), dflt)
            return B(f)
        if name == "pop":
            def f(it, a, k):
                kk = it.unwrap(a[0], d.kty)
                present = z3.simplify(z3.Select(d.has, kk))
                old = it.lift(sel(d.val, kk), d.vty)
                if d.size is not None:
                    d.size = z3.simplify(d.size - z3.If(present, 1, 0))
                if len(a) > 1:
                    dflt = a[1]
                    if dflt is None:
                        b = it.ctx.branch(present, "pop")
                        d.has = z3.Store(d.has, kk, z3.BoolVal(False))
                        return old if b else None
                    r = it.ite(present, old, dflt)
                    d.has = z3.Store(d.has, kk, z3.BoolVal(False))
                    return r
                if not it.ctx.branch(present, "pop"):
                    raise PyRaise("KeyError", "pop")
                d.has = z3.Store(d.has, kk, z3.BoolVal(False))
                return old
            return B(f)
        if name == "popitem":
            def f(it, a, k):
                ne = dict_nonempty(it, d)
                if not it.ctx.branch(ne, "popitem"):
                    raise PyRaise("KeyError", "popitem(): dictionary is empty")
                w = z3.Const(it.ctx.fresh_name("pk"), d.kty.sort())
                it.ctx.assume(z3.Select(d.has, w))
                v = it.lift(sel(d.val, w), d.vty)
                d.has = z3.Store(d.has, w, z3.BoolVal(False))
                if d.size is not None:
                    d.size = z3.simplify(d.size - 1)
                return (it.lift(w, d.kty), v)
            return B(f)
        if name == "setdefault":
            def f(it, a, k):
                kk = it.unwrap(a[0], d.kty)
                present = z3.simplify(z3.Select(d.has, kk))
                dv = it.unwrap(a[1], d.vty)
                newval = z3.If(present, z3.Select(d.val, kk), dv)
                d.val = z3.Store(d.val, kk, newval)
                d.has = z3.Store(d.has, kk, z3.BoolVal(True))
                return it.lift(z3.simplify(newval), d.vty)
            return B(f)
        if name == "copy":
            return B(lambda it, a, k: SymDict(d.has, d.val, d.kty, d.vty, d.name + "c"))
        if name == "keys":
            return B(lambda it, a, k: KeyIter(d.has, d.kty, d.val, d.vty, "keys"))
        if name == "items":
            return B(lambda it, a, k: KeyIter(d.has, d.kty, d.val, d.vty, "items"))
        if name == "values":
            return B(lambda it, a, k: KeyIter(d.has, d.kty, d.val, d.vty, "values"))
        if name == "update":
            def f(it, a, k):
                o = a[0]
                if not isinstance(o, SymDict):
                    raise Unsupported("update with non-symbolic dict")
                x = z3.Const(it.ctx.fresh_name("uk"), d.kty.sort())
                d.val = z3.Lambda([x], z3.If(z3.Select(o.has, x), z3.Select(o.val, x), z3.Select(d.val, x)))
                d.has = z3.Lambda([x], z3.Or(z3.Select(o.has, x), z3.Select(d.has, x)))
                return None
            return B(f)
        if name == "clear":
            def f(it, a, k):
                d.has = z3.K(d.kty.sort(), z3.BoolVal(False))
            return B(f)
        if name == "move_to_end":
            return B(lambda it, a, k: None)
        raise Unsupported(f"dict.{name} on symbolic dict")
    if isinstance(obj, SymList):
        l = obj
        if name == "append":
            def f(it, a, k):
                l.arr = z3.Store(l.arr, zlen(l.length), it.unwrap(a[0], l.ety))
                l.length = z3.simplify(zlen(l.length) + 1)
            return B(f)
        if name == "pop":
            def f(it, a, k):
                n = zlen(l.length)
                if a:
                    i = norm_index(it, l, a[0])
                else:
                    if not it.ctx.branch(n > 0, "poplist"):
                        raise PyRaise("IndexError", "pop from empty list")
                    i = n - 1
                v = it.lift(sel(l.arr, i), l.ety)
                j = it.ctx.fresh("pp", TInt)
                l.arr = pop_arr(l.arr, i)
                l.length = z3.simplify(n - 1)
                return v
            return B(f)
        if name == "copy":
            return B(lambda it, a, k: SymList(l.length, l.arr, l.ety))
        if name == "clear":
            def f(it, a, k):
                l.length = 0
            return B(f)
        raise Unsupported(f"list.{name} on symbolic list")
    if isinstance(obj, SymSet):
        st = obj
        if name == "add":
            def f(it, a, k):
                st.has = z3.Store(st.has, it.unwrap(a[0], st.kty), z3.BoolVal(True))
            return B(f)
        if name == "discard":
            def f(it, a, k):
                st.has = z3.Store(st.has, it.unwrap(a[0], st.kty), z3.BoolVal(False))
            return B(f)
        if name == "intersection":
            def f(it, a, k):
                o = a[0]
                if isinstance(o, KeyIter) and o.mode == "values":
                    oh = image_set(it, o)
                elif isinstance(o, KeyIter) and o.mode == "keys":
                    oh = o.has
                elif isinstance(o, SymSet):
                    oh = o.has
                else:
                    raise Unsupported("intersection with non-symbolic iterable")
                x = z3.Const(it.ctx.fresh_name("ix"), st.kty.sort())
                return SymSet(z3.Lambda([x], z3.And(z3.Select(st.has, x), z3.Select(oh, x))), st.kty)
            return B(f)
        raise Unsupported(f"set.{name} on symbolic set")
    if isinstance(obj, SymSeq):
        if name == "__getitem__":
            return B(lambda it, a, k: getitem(it, obj, a[0]))
        if name == "index":
            raise Unsupported("tuple.index on symbolic")
        if name == "count":
            raise Unsupported("count")
    if isinstance(obj, KeyIter):
        raise Unsupported(f"method {name} of dict view")
    if isinstance(obj, dict):
        d = obj
        if name in ("get", "pop", "setdefault") :
            def f(it, a, k, name=name):
                key = a[0]
                if is_symval(key):
                    raise Unsupported(f"dict.{name} with symbolic key on concrete dict")
                if name == "get":
                    return d.get(key, a[1] if len(a) > 1 else None)
                if name == "setdefault":
                    return d.setdefault(key, a[1] if len(a) > 1 else None)
                if len(a) > 1:
                    return d.pop(key, a[1])
                if key not in d:
                    raise PyRaise("KeyError", repr(key))
                return d.pop(key)
            return B(f)
        if name == "items":
            return B(lambda it, a, k: DictView(d, "items"))
        if name == "keys":
            return B(lambda it, a, k: DictView(d, "keys"))
        if name == "values":
            return B(lambda it, a, k: DictView(d, "values"))
        if name == "copy":
            return B(lambda it, a, k: dict(d))
        if name == "update":
            def f(it, a, k):
                o = a[0] if a else {}
                if isinstance(o, dict):
                    d.update(o)
                else:
                    raise Unsupported("dict.update arg")
                d.update(k)
            return B(f)
        if name == "clear":
            return B(lambda it, a, k: d.clear())
        if name == "popitem":
            def f(it, a, k):
                if not d:
                    raise PyRaise("KeyError", "popitem")
                last = k.get("last", True)
                key = list(d)[-1 if last else 0]
                return (key, d.pop(key))
            return B(f)
        if name == "move_to_end":
            def f(it, a, k):
                v = d.pop(a[0])
                d[a[0]] = v
            return B(f)
    if isinstance(obj, list):
        l = obj
        if name == "append":
            return B(lambda it, a, k: l.append(a[0]))
        if name == "extend":
            return B(lambda it, a, k: l.extend(concrete_iter(it, a[0])))
        if name == "pop":
            def f(it, a, k):
                try:
                    return l.pop(*a)
                except IndexError:
                    raise PyRaise("IndexError", "pop")
            return B(f)
        if name == "clear":
            return B(lambda it, a, k: l.clear())
        if name == "reverse":
            return B(lambda it, a, k: l.reverse())
        if name == "copy":
            return B(lambda it, a, k: list(l))
        if name == "insert":
            return B(lambda it, a, k: l.insert(a[0], a[1]))
        if name == "index":
            def f(it, a, k):
                for i, x in enumerate(l):
                    c = compare(it, ast.Eq, x, a[0])
                    if isinstance(c, bool):
                        if c:
                            return i
                    elif it.ctx.branch(c, "lindex"):
                        return i
                raise PyRaise("ValueError", "not in list")
            return B(f)
    if isinstance(obj, tuple):
        if name == "index":
            return get_method(it, list(obj), "index")
        if name == "__getitem__":
            return B(lambda it, a, k: getitem(it, obj, a[0]))
    if isinstance(obj, set):
        s = obj
        if name == "add":
            return B(lambda it, a, k: s.add(a[0]))
        if name == "discard":
            return B(lambda it, a, k: s.discard(a[0]))
        if name == "intersection":
            return B(lambda it, a, k: s.intersection(set(concrete_iter(it, a[0]))))
    if isinstance(obj, str):
        if name in ("count", "find", "index", "split", "join", "format", "upper", "startswith"):
            def f(it, a, k, name=name):
                if any(is_symval(x) for x in a):
                    raise Unsupported("str method with symbolic arg")
                return getattr(obj, name)(*a)
            return B(f)
    return None


def image_set(it, ki):
    """membership array of {val[k] : k in keys}"""
    v = z3.Const(it.ctx.fresh_name("img"), ki.vty.sort())
    k = z3.Const(it.ctx.fresh_name("imk"), ki.kty.sort())
    return z3.Lambda([v], z3.Exists([k], z3.And(z3.Select(ki.has, k), z3.Select(ki.val, k) == v)))


def pop_arr(arr, i):
    j = z3.Int("pj!")
    return z3.Lambda([j], z3.If(j < i, z3.Select(arr, j), z3.Select(arr, j + 1)))


# ----------------------------------------------------------------------------
# operators


def opaque_neg(it, v):
    h = getattr(it, "neg_fn", {}).get(repr(v.ty))
    if h is not None:
        return SV(h(v.t), v.ty)
    return None


def prove_under_pc(it, term):
    s = z3.Solver()
    s.set("timeout", 2000)
    for a in it.ctx.axioms:
        s.add(a)
    for p in it.ctx.pc:
        s.add(p)
    s.add(z3.Not(term))
    return s.check() == z3.unsat


_DUNDER = {ast.Add: "add", ast.Sub: "sub", ast.Mult: "mul", ast.Div: "truediv", ast.MatMult: "matmul", ast.Pow: "pow", ast.FloorDiv: "floordiv", ast.Mod: "mod"}


def binop(it, op, a, b):
    from .interp import I as toI, R, simp, FuncVal

    # operator overloading on objects of interpreted classes (python protocol: __op__, then reflected __rop__)
    if op in _DUNDER and (isinstance(a, SymObj) and a.cls is not None or isinstance(b, SymObj) and b.cls is not None):
        nm = _DUNDER[op]
        if isinstance(a, SymObj) and a.cls is not None:
            m, _ = a.cls.lookup(f"__{nm}__")
            if isinstance(m, FuncVal):
                r = it.call(m, [a, b])
                if r != "<NotImplemented>":
                    return r
        if isinstance(b, SymObj) and b.cls is not None:
            m, _ = b.cls.lookup(f"__r{nm}__")
            if isinstance(m, FuncVal):
                r = it.call(m, [b, a])
                if r != "<NotImplemented>":
                    return r
        raise PyRaise("TypeError", f"unsupported operand types for {nm}")

    # sequences
    if op is ast.Add and isinstance(a, (tuple, list, SymSeq, SymList)) and isinstance(b, (tuple, list, SymSeq, SymList)):
        if isinstance(a, tuple) and isinstance(b, tuple):
            return a + b
        if isinstance(a, list) and isinstance(b, list):
            return a + b
        kind = "list" if isinstance(a, (list, SymList)) else "tuple"
        parts = []
        for x in (a, b):
            items = concrete_iter(it, x)
            if items is not None:
                parts.extend(("one", y) for y in items)
            else:
                parts.append(("star", x))
        return concat_parts(it, parts, kind)
    if op is ast.Mult and isinstance(a, (list, tuple)) and isinstance(b, int):
        return a * b
    if op is ast.Mult and isinstance(b, (list, tuple)) and isinstance(a, int):
        return a * b
    if not is_symval(a) and not is_symval(b) and isinstance(a, (int, float, bool, str)) and isinstance(b, (int, float, bool, str)):
        import operator as o

        fn = {ast.Add: o.add, ast.Sub: o.sub, ast.Mult: o.mul, ast.Div: o.truediv, ast.FloorDiv: o.floordiv, ast.Mod: o.mod, ast.Pow: o.pow, ast.BitXor: o.xor, ast.BitAnd: o.and_, ast.BitOr: o.or_}[op]
        try:
            return fn(a, b)
        except ZeroDivisionError:
            raise PyRaise("ZeroDivisionError")
    ta = it.type_of(a) if isinstance(a, (int, float, bool, SV)) else None
    tb = it.type_of(b) if isinstance(b, (int, float, bool, SV)) else None
    if ta is None or tb is None:
        # opaque block arithmetic hooks
        h = getattr(it, "binop_hook", None)
        if h is not None:
            r = h(it, op, a, b)
            if r is not None:
                return r
        raise Unsupported(f"binary op {op.__name__} on {type(a).__name__}, {type(b).__name__}")
    if ta in (TInt, TBool) and tb in (TInt, TBool):
        x, y = toI(a), toI(b)
        if op is ast.Add:
            return simp(SV(x + y, TInt))
        if op is ast.Sub:
            return simp(SV(x - y, TInt))
        if op is ast.Mult:
            f = getattr(it, "int_mul", None)
            if f is not None and not z3.is_int_value(z3.simplify(x)) and not z3.is_int_value(z3.simplify(y)):
                return SV(f(x, y), TInt)  # product of two unknowns abstracted by the contract (exact re-check of refutations)
            return simp(SV(x * y, TInt))
        if op in (ast.FloorDiv, ast.Mod):
            if isinstance(b, int) and not isinstance(b, bool) and b > 0:
                return simp(SV(x / y if op is ast.FloorDiv else x % y, TInt))
            if isinstance(b, int):
                raise Unsupported("floor division / modulo by non-positive literal")
            # symbolic divisor: python semantics for positive divisor; ZeroDivisionError branch
            if not it.term_mode:
                if not it.ctx.branch(y != 0, "divzero"):
                    raise PyRaise("ZeroDivisionError")
            if prove_under_pc(it, y > 0) if not it.term_mode else False:
                return simp(SV(x / y if op is ast.FloorDiv else x % y, TInt))
            pm = pymod_fn()
            if op is ast.Mod:
                it.ctx.notes.append("pymod")
                return SV(pm(x, y), TInt)
            raise Unsupported("floor division by symbolic divisor of unknown sign")
        if op is ast.Pow:
            if isinstance(b, int) and 0 <= b <= 4:
                r = z3.IntVal(1)
                for _ in range(b):
                    r = r * x
                return simp(SV(r, TInt))
            raise Unsupported("pow with symbolic exponent")
        if op is ast.BitXor:
            rng = z3.And(x >= 0, x <= 1, y >= 0, y <= 1)
            if it.term_mode or prove_under_pc(it, rng):
                if it.term_mode:
                    raise Unsupported("xor under bound variable")
                return simp(SV((x + y) % 2, TInt))
            raise Unsupported("bitwise xor on ints not known to be in {0,1}")
        if op is ast.Div:
            if not it.term_mode and not it.ctx.branch(y != 0, "divzero"):
                raise PyRaise("ZeroDivisionError")
            return SV(z3.ToReal(x) / z3.ToReal(y), TReal)
        raise Unsupported(f"int op {op.__name__}")
    if ta in (TInt, TBool, TReal) and tb in (TInt, TBool, TReal):
        x, y = R(a), R(b)
        if op is ast.Add:
            return SV(x + y, TReal)
        if op is ast.Sub:
            return SV(x - y, TReal)
        if op is ast.Mult:
            f = getattr(it, "real_mul", None)
            if f is not None and not z3.is_rational_value(z3.simplify(x)) and not z3.is_rational_value(z3.simplify(y)):
                return SV(f(x, y), TReal)  # product of two unknowns abstracted by the contract (order axioms)
            return SV(x * y, TReal)
        if op is ast.Div:
            if not it.term_mode and not it.ctx.branch(y != 0, "divzero"):
                raise PyRaise("ZeroDivisionError")
            return SV(x / y, TReal)
        raise Unsupported(f"real op {op.__name__}")
    h = getattr(it, "binop_hook", None)
    if h is not None:
        r = h(it, op, a, b)
        if r is not None:
            return r
    raise Unsupported(f"binary op {op.__name__} on {ta}, {tb}")


_pymod = []


def pymod_fn():
    if not _pymod:
        _pymod.append(z3.Function("pymod", z3.IntSort(), z3.IntSort(), z3.IntSort()))
    return _pymod[0]


def pymod_axioms():
    pm = pymod_fn()
    x, n = z3.Ints("x!pm n!pm")
    return [
        z3.ForAll([x, n], z3.Implies(n > 0, z3.And(pm(x, n) >= 0, pm(x, n) < n)), patterns=[pm(x, n)]),
        z3.ForAll([x, n], z3.Implies(z3.And(n > 0, x >= 0, x < n), pm(x, n) == x), patterns=[pm(x, n)]),
        z3.ForAll([x, n], z3.Implies(z3.And(n > 0, x >= -n, x < 0), pm(x, n) == x + n), patterns=[pm(x, n)]),
    ]


def compare(it, op, a, b):
    """python bool or z3 Bool"""
    from .interp import ClassVal, ExcClass, FuncVal, I as toI, R, SliceVal

    from .interp import OpaqueText

    if isinstance(a, OpaqueText) or isinstance(b, OpaqueText):
        raise Unsupported("comparison of a formatted text that has symbolic parts")
    h = getattr(it, "compare_hook", None)
    if h is not None:
        r = h(it, op, a, b)
        if r is not None:
            return r
    if op in (ast.Is, ast.IsNot):
        if a is None or b is None or isinstance(a, (bool, str)) or isinstance(b, (bool, str)):
            r = a is b
        elif isinstance(a, (SymObj, SymDict, SymList, ClassVal, FuncVal)) or isinstance(b, (SymObj, SymDict, SymList, ClassVal, FuncVal)):
            r = a is b
        elif isinstance(a, SV) or isinstance(b, SV):
            r = False if (a is None or b is None) else (_ for _ in ()).throw(Unsupported("`is` on symbolic values"))
        else:
            r = a is b
        return r if op is ast.Is else not r
    if op in (ast.In, ast.NotIn):
        r = contains(it, b, a)
        if op is ast.In:
            return r
        return (not r) if isinstance(r, bool) else z3.Not(r)
    if op is ast.NotEq:
        # python: __ne__ defaults to not __eq__
        r = compare(it, ast.Eq, a, b)
        return (not r) if isinstance(r, bool) else z3.Not(r)
    # operator overloading on modelled classes
    for x, y, refl in ((a, b, False), (b, a, True)):
        meth = None
        if isinstance(x, SymObj) and x.cls is not None or (isinstance(x, SV) and isinstance(x.ty, TStruct) and x.ty.cls):
            name = {ast.Eq: "__eq__", ast.Lt: "__lt__", ast.Gt: "__gt__", ast.LtE: "__le__", ast.GtE: "__ge__"}[op]
            if refl:
                name = {"__eq__": "__eq__", "__lt__": "__gt__", "__gt__": "__lt__", "__le__": "__ge__", "__ge__": "__le__"}[name]
            try:
                if isinstance(x, SymObj):
                    m, _ = x.cls.lookup(name)
                else:
                    mn, cn = x.ty.cls.split(".")
                    m, _ = it.get_class(mn, cn).lookup(name)
            except Exception:
                m = None
            if m is not None and isinstance(m, FuncVal):
                r = it.call(m, [x, y])
                return it.truth(r)
            if isinstance(x, SymObj) and op is ast.Eq and not refl and not (isinstance(y, SymObj) or (isinstance(y, SV) and isinstance(y.ty, TStruct) and y.ty.cls)):
                return x is y
    if op is ast.Eq:
        return equal(it, a, b)
    # ordering
    if isinstance(a, (int, float, bool)) and isinstance(b, (int, float, bool)):
        import operator as o

        return {ast.Lt: o.lt, ast.Gt: o.gt, ast.LtE: o.le, ast.GtE: o.ge}[op](a, b)
    if isinstance(a, (int, bool, float, SV)) and isinstance(b, (int, bool, float, SV)):
        ta, tb = it.type_of(a), it.type_of(b)
        if ta in (TInt, TBool) and tb in (TInt, TBool):
            x, y = toI(a), toI(b)
        elif ta in (TInt, TBool, TReal) and tb in (TInt, TBool, TReal):
            x, y = R(a), R(b)
        elif ta == tb and isinstance(ta, TOpaque) and getattr(it, "order_fn", {}).get(ta.name):
            lt = it.order_fn[ta.name]
            x, y = a.t, b.t
            return {ast.Lt: lt(x, y), ast.Gt: lt(y, x), ast.LtE: z3.Not(lt(y, x)), ast.GtE: z3.Not(lt(x, y))}[op]
        else:
            raise Unsupported(f"ordering of {ta} and {tb}")
        return z3.simplify({ast.Lt: x < y, ast.Gt: x > y, ast.LtE: x <= y, ast.GtE: x >= y}[op])
    if isinstance(a, tuple) and isinstance(b, tuple):
        # lexicographic
        if op in (ast.Lt, ast.Gt):
            if not a or not b:
                return (len(a) < len(b)) if op is ast.Lt else (len(a) > len(b))
            first = compare(it, op, a[0], b[0])
            eq0 = equal(it, a[0], b[0])
            rest = compare(it, op, a[1:], b[1:])
            return zor(first, zand(eq0, rest))
    raise Unsupported(f"comparison {op.__name__} of {type(a).__name__}, {type(b).__name__}")


def zand(*xs):
    ts = []
    for x in xs:
        if isinstance(x, bool):
            if not x:
                return False
        else:
            ts.append(x)
    if not ts:
        return True
    return z3.And(*ts) if len(ts) > 1 else ts[0]


def zor(*xs):
    ts = []
    for x in xs:
        if isinstance(x, bool):
            if x:
                return True
        else:
            ts.append(x)
    if not ts:
        return False
    return z3.Or(*ts) if len(ts) > 1 else ts[0]


def equal(it, a, b):
    from .interp import I as toI, R, SliceVal

    if a is None or b is None:
        return a is None and b is None
    if isinstance(a, str) or isinstance(b, str):
        if isinstance(a, str) and isinstance(b, str):
            return a == b
        if isinstance(a, SymObj) or isinstance(b, SymObj):
            return False
        return False
    if isinstance(a, (int, float, bool)) and isinstance(b, (int, float, bool)):
        return a == b
    if isinstance(a, (int, bool, float, SV)) and isinstance(b, (int, bool, float, SV)):
        ta, tb = it.type_of(a), it.type_of(b)
        if ta is TBool and tb is TBool:
            return z3.simplify(it.unwrap(a, TBool) == it.unwrap(b, TBool))
        if ta in (TInt, TBool) and tb in (TInt, TBool):
            return z3.simplify(toI(a) == toI(b))
        if ta in (TInt, TBool, TReal) and tb in (TInt, TBool, TReal):
            return z3.simplify(R(a) == R(b))
        if ta == tb:
            return z3.simplify(a.t == b.t)
        return False
    if isinstance(a, (tuple, list)) and isinstance(b, (tuple, list)):
        if type(a) is not type(b):
            return False
        if len(a) != len(b):
            return False
        return zand(*[equal(it, x, y) for x, y in zip(a, b)])
    if isinstance(a, (SymSeq, SymList, tuple, list)) and isinstance(b, (SymSeq, SymList, tuple, list)):
        sa, sb = to_symseq_or_empty(it, a, b), to_symseq_or_empty(it, b, a)
        if sa is None or sb is None:
            # one is empty concrete
            other = b if sa is None else a
            return z3.simplify(zlen(other.length) == 0) if not isinstance(other, (tuple, list)) else len(other) == 0
        if sa.ety != sb.ety:
            return False
        j = it.ctx.fresh("eq", TInt)
        n = zlen(sa.length)
        return z3.And(n == zlen(sb.length), z3.ForAll([j], z3.Implies(z3.And(j >= 0, j < n), z3.Select(sa.arr, j) == z3.Select(sb.arr, j))))
    if isinstance(a, SliceVal) and isinstance(b, SliceVal):
        return zand(equal(it, a.lo, b.lo), equal(it, a.hi, b.hi))
    if isinstance(a, (SymObj,)) or isinstance(b, (SymObj,)):
        return a is b
    if type(a) is type(b) and not is_symval(a):
        try:
            return a == b
        except Exception:
            pass
    if isinstance(a, SV) and isinstance(a.ty, TStruct) and isinstance(b, tuple):
        return equal(it, it.lift(a.t, a.ty) if a.ty.name.startswith("Tup") else a, b) if a.ty.name.startswith("Tup") else False
    if isinstance(b, SV) and isinstance(b.ty, TStruct) and isinstance(a, tuple):
        return equal(it, b, a)
    return False


def to_symseq_or_empty(it, x, other):
    if isinstance(x, (tuple, list)) and len(x) == 0:
        return None
    return to_symseq(it, x)


def contains(it, container, x):
    if isinstance(container, SymDict):
        return z3.simplify(z3.Select(container.has, it.unwrap(x, container.kty)))
    if isinstance(container, SymSet):
        return z3.simplify(z3.Select(container.has, it.unwrap(x, container.kty)))
    if isinstance(container, KeyIter):
        return z3.simplify(z3.Select(container.has, it.unwrap(x, container.kty)))
    if isinstance(container, (SymSeq, SymList)):
        j = it.ctx.fresh("in", TInt)
        xt = it.unwrap(x, container.ety)
        return z3.Exists([j], z3.And(j >= 0, j < zlen(container.length), z3.Select(container.arr, j) == xt))
    if isinstance(container, (set, list, tuple, dict, range)):
        items = list(container)
        if not is_symval(x) and not any(is_symval(y) for y in items):
            try:
                return x in container
            except TypeError:
                return any(equal(it, x, y) is True for y in items)
        return zor(*[equal(it, x, y) for y in items])
    if isinstance(container, DictView):
        return contains(it, container.items(), x)
    if isinstance(container, SV) and isinstance(container.ty, TOpaque):
        h = getattr(it, "opaque_contains", {}).get(container.ty.name)
        if h is not None:
            return h(it, container, x)
    if isinstance(container, str):
        if isinstance(x, str):
            return x in container
    raise Unsupported(f"`in` on {type(container).__name__}")


# ----------------------------------------------------------------------------
# comprehensions


def comprehension(it, e, env, kind):
    from .interp import Env

    gens = e.generators
    if any(g.is_async for g in gens):
        raise Unsupported("async comprehension")

    def elt_value(env2):
        if kind == "dict":
            return (it.eval_expr(e.key, env2), it.eval_expr(e.value, env2))
        return it.eval_expr(e.elt, env2)

    # try concrete unrolling
    def rec(gi, env2, out):
        if gi == len(gens):
            out.append(elt_value(env2))
            return True
        g = gens[gi]
        itv = it.eval_expr(g.iter, env2)
        items = concrete_iter(it, itv)
        if items is None:
            return False
        for x in items:
            env3 = Env(env2)
            it.assign(g.target, x, env3)
            ok = True
            for c in g.ifs:
                if not it.branch_on(it.eval_expr(c, env3), f"compif{c.lineno}"):
                    ok = False
                    break
            if ok:
                if not rec(gi + 1, env3, out):
                    raise Unsupported("nested comprehension over symbolic inner iterable")
        return True

    g0 = gens[0]
    it0 = it.eval_expr(g0.iter, env)
    items0 = concrete_iter(it, it0)
    if items0 is not None:
        out = []
        # re-use evaluated iterable for the first generator
        for x in items0:
            env3 = Env(env)
            it.assign(g0.target, x, env3)
            ok = True
            for c in g0.ifs:
                if not it.branch_on(it.eval_expr(c, env3), f"compif{c.lineno}"):
                    ok = False
                    break
            if ok and not rec(1, env3, out):
                raise Unsupported("comprehension over symbolic inner iterable")
        if kind == "dict":
            d = {}
            for k, v in out:
                if is_symval(k):
                    raise Unsupported("dict comprehension with symbolic keys over concrete iterable")
                d[k] = v
            return d
        if kind == "set":
            if any(is_symval(x) for x in out):
                raise Unsupported("set comprehension with symbolic members")
            return set(out)
        return out if kind == "list" else (out if kind == "gen" else out)
    # symbolic first iterable
    if len(gens) != 1:
        raise Unsupported("multi-generator comprehension over symbolic iterable")
    hook = getattr(it, "comp_hook", None)
    if hook is not None:
        r = hook(it, e, env, kind, it0)
        if r is not None:
            return r
    if isinstance(it0, KeyIter):
        return comp_keyiter(it, e, env, kind, it0)
    s = to_symseq(it, it0)
    if g0.ifs:
        return comp_filter(it, e, env, kind, s)
    if kind == "dict":
        raise Unsupported("dict comprehension over symbolic sequence (needs a summary)")

    def body(x):
        env3 = Env(env)
        it.assign(g0.target, x, env3)
        return it.eval_expr(e.elt, env3)

    r = map_symseq(it, s, body, "gen" if kind == "gen" else "tuple")
    if kind == "list":
        return SymList(r.length, r.arr, r.ety)
    if kind == "set":
        raise Unsupported("set comprehension over symbolic sequence")
    return r


def comp_filter(it, e, env, kind, s):
    """[f(x) for x in s if c(x)] for symbolic s: the result is a fresh sequence
    characterised by the *definition of filter* (A-builtins):
      idx strictly increasing positions of s, all satisfying c, every satisfying position present."""
    from .interp import Env

    if kind not in ("gen", "list", "tuple"):
        raise Unsupported("filtered set/dict comprehension over symbolic sequence")
    g0 = e.generators[0]
    ctx = it.ctx
    n = zlen(s.length)

    def cond_at(i):
        env3 = Env(env)
        it.assign(g0.target, it.lift(z3.Select(s.arr, i), s.ety), env3)
        it.term_mode += 1
        try:
            ts = [it.truth(it.eval_expr(c, env3)) for c in g0.ifs]
            v = it.eval_expr(e.elt, env3)
        finally:
            it.term_mode -= 1
        ts = [z3.BoolVal(t) if isinstance(t, bool) else t for t in ts]
        return z3.And(*ts) if len(ts) > 1 else ts[0], v

    m = ctx.fresh("flen", TInt)
    idx = z3.Const(ctx.fresh_name("fidx"), z3.ArraySort(z3.IntSort(), z3.IntSort()))
    pos = z3.Const(ctx.fresh_name("fpos"), z3.ArraySort(z3.IntSort(), z3.IntSort()))
    j, j2, i = z3.Int(ctx.fresh_name("fj")), z3.Int(ctx.fresh_name("fj2")), z3.Int(ctx.fresh_name("fi"))
    cj, vj = cond_at(z3.Select(idx, j))
    ci, _ = cond_at(i)
    ety = it.type_of(vj)
    ctx.assume(z3.And(m >= 0, m <= n))
    ctx.assume(z3.ForAll([j], z3.Implies(z3.And(j >= 0, j < m), z3.And(z3.Select(idx, j) >= 0, z3.Select(idx, j) < n, cj))))
    ctx.assume(z3.ForAll([j, j2], z3.Implies(z3.And(j >= 0, j < j2, j2 < m), z3.Select(idx, j) < z3.Select(idx, j2))))
    ctx.assume(z3.ForAll([i], z3.Implies(z3.And(i >= 0, i < n, ci), z3.And(z3.Select(pos, i) >= 0, z3.Select(pos, i) < m, z3.Select(idx, z3.Select(pos, i)) == i))))
    arr = z3.Lambda([j], it.unwrap(vj, ety))
    ctx.notes.append("filter-comprehension")
    if kind == "list":
        return SymList(m, arr, ety)
    r = SymSeq(m, arr, ety, "gen" if kind == "gen" else "tuple", {"filter_idx": idx, "filter_pos": pos, "source_len": n})
    return r


class DictGen:
    """(elem(s, d[s]) for s, b in d.items() if cond(s, b)) over a symbolic dict: element and filter as terms over
    ONE generic stored item (key constant `key`, value term `val`).  Only consumers with a contract-level
    summary accept it (sum: it.dictgen_sum)."""

    def __init__(self, ki, key, val, elem, cond):
        self.ki, self.key, self.val, self.elem, self.cond = ki, key, val, elem, cond


def comp_dictgen(it, e, env, ki):
    from .interp import Env

    g0 = e.generators[0]
    s = z3.Const(it.ctx.fresh_name("dg_key"), ki.kty.sort())
    env3 = Env(env)
    if ki.mode == "items":
        b = z3.Const(it.ctx.fresh_name("dg_val"), ki.vty.sort())
        x = (it.lift(s, ki.kty), it.lift(b, ki.vty))
    elif ki.mode == "keys":
        b = None
        x = it.lift(s, ki.kty)
    else:
        b = z3.Const(it.ctx.fresh_name("dg_val"), ki.vty.sort())
        x = it.lift(b, ki.vty)
    it.assign(g0.target, x, env3)
    it.term_mode += 1
    try:
        conds = [it.truth(it.eval_expr(c, env3)) for c in g0.ifs]
        v = it.eval_expr(e.elt, env3)
    finally:
        it.term_mode -= 1
    conds = [z3.BoolVal(c) if isinstance(c, bool) else c for c in conds]
    return DictGen(ki, s, b, v, z3.And(*conds) if conds else z3.BoolVal(True))


def comp_keyiter(it, e, env, kind, ki):
    """{fk(s): fv(s, b) for s, b in d.items()} over a symbolic dict, when fk is the identity or
    a registered invertible re-keying (it.invertible: z3 decl -> inverse decl, extra arguments
    passed through).  The result dict is  has'[k'] = has[g(k')] and fk(g(k')) == k',
    val'[k'] = fv(g(k'), val[g(k')])  (A-builtins: dict comprehension semantics)."""
    from .interp import Env

    if kind != "dict":
        if kind == "gen" and getattr(it, "dictgen_sum", None) is not None:
            return comp_dictgen(it, e, env, ki)
        raise Unsupported("non-dict comprehension over a symbolic dict view (needs a summary)")
    g0 = e.generators[0]
    s = z3.Const(it.ctx.fresh_name("rk"), ki.kty.sort())
    env3 = Env(env)
    if ki.mode == "items":
        x = (it.lift(s, ki.kty), it.lift(z3.Select(ki.val, s), ki.vty))
    elif ki.mode == "keys":
        x = it.lift(s, ki.kty)
    else:
        raise Unsupported("dict comprehension over values()")
    it.assign(g0.target, x, env3)
    it.term_mode += 1
    try:
        kv = it.eval_expr(e.key, env3)
        vv = it.eval_expr(e.value, env3)
        conds = [it.truth(it.eval_expr(c, env3)) for c in g0.ifs]
    finally:
        it.term_mode -= 1
    conds = [z3.BoolVal(c) if isinstance(c, bool) else c for c in conds]
    if isinstance(kv, tuple):
        kv = SV(it.unwrap(kv, it.type_of(kv)), it.type_of(kv))
    if not isinstance(kv, SV):
        raise Unsupported("re-keyed dict comprehension: key is not a symbolic scalar")
    kty2 = kv.ty
    vty2 = it.type_of(vv)
    vterm = it.unwrap(vv, vty2)
    k2 = z3.Const(it.ctx.fresh_name("rk2"), kty2.sort())
    def _is_identity():
        if z3.eq(kv.t, s):
            return True
        if kv.ty != ki.kty:
            return False
        sl = z3.Solver()
        sl.set("timeout", 2000)
        sl.add(kv.t != s)
        return sl.check() == z3.unsat  # e.g. a tuple rebuilt from its own components

    if _is_identity():
        pre = k2
        ok = z3.BoolVal(True)
    else:
        inv = None
        if z3.is_app(kv.t) and kv.t.num_args() >= 1 and z3.eq(kv.t.arg(0), s):
            inv = getattr(it, "invertible", {}).get(kv.t.decl().name())
        hook = getattr(it, "rekey_inverse", None)
        if inv is None and hook is not None:
            # the contract supplies a candidate pre-image g(k') of the key function (e.g. "remove the inserted
            # component"); the model below is only sound if no two stored entries collapse onto one key:
            # that is an obligation, not an assumption
            pre = hook(it, kv.t, s, k2)
            if pre is None:
                raise Unsupported("re-keyed dict comprehension: the contract gives no pre-image for this key function")
            s2 = z3.Const(it.ctx.fresh_name("rk3"), ki.kty.sort())
            fn_name = it.frames[-1].func.qualname if it.frames else "?"
            it.ctx.oblige(f"{fn_name}.rekeyed_comprehension.no_two_stored_entries_get_the_same_key", z3.ForAll([s, s2], z3.Implies(z3.And(z3.Select(ki.has, s), z3.Select(ki.has, s2), kv.t == z3.substitute(kv.t, (s, s2))), s == s2)))
            ok = z3.substitute(kv.t, (s, pre)) == k2
        elif inv is None:
            raise Unsupported("re-keyed dict comprehension with a key function that has no registered inverse")
        else:
            extra = [kv.t.arg(i) for i in range(1, kv.t.num_args())]
            pre = inv(k2, *extra)
            ok = z3.substitute(kv.t, (s, pre)) == k2
    keep = [z3.substitute(c, (s, pre)) for c in conds]
    has2 = z3.Lambda([k2], z3.And(z3.Select(ki.has, pre), ok, *keep))
    val2 = z3.Lambda([k2], z3.substitute(vterm, (s, pre)))
    return SymDict(has2, val2, kty2, vty2, "rekeyed")


# ----------------------------------------------------------------------------
# loops with invariants


class LoopSpec:
    """Sidecar loop contract, keyed by (function qualname, loop ordinal).

    carried   : {local name: kind} variables assigned in the body that are havocked:
                kind in {"int","bool","real"} | T (struct/opaque) | "inplace" (SymList/SymDict object
                mutated in place: its state is havocked, identity kept)
    cells     : callables env -> mutable symbolic object (SymList/SymDict) havocked in place
    invariant : fn(it, env, g) -> [(name, z3 bool)]   g = {"k": index term or None, "pre": {...}, "vis": ..}
    step_lemmas: fn(it, env, g_pre_state) -> [z3 bool] facts (lemma instances) assumed before the
                preservation check
    """

    def __init__(self, carried=None, cells=None, invariant=None, step_lemmas=None, pre_capture=None, prepare=None, havoc_more=None, target=None):
        # target: the loop variable(s) of the loop this contract was written for ("k", or ("sector", "array")); a loop
        # with another target at this ordinal means the code was restructured (loops added / removed / reordered):
        # the contract does not apply and the task is UNDECIDED instead of judging a different loop by this invariant
        self.target = target
        self.carried = carried or {}
        self.cells = cells or []
        self.invariant = invariant
        self.step_lemmas = step_lemmas
        self.pre_capture = pre_capture
        # prepare(it, env): run once before the loop is entered (e.g. turn an empty python dict nested in a
        # list into an empty symbolic dict so that it can be a cell); havoc_more(it, env): extra havoc after
        # the declared one (e.g. overwrite the entries of python lists that the body reuses as scratch space)
        self.prepare = prepare
        self.havoc_more = havoc_more


def havoc_value(it, name, kind, cur):
    ctx = it.ctx
    if kind == "int":
        return SV(ctx.fresh(name, TInt), TInt)
    if kind == "bool":
        return SV(ctx.fresh(name, TBool), TBool)
    if kind == "real":
        return SV(ctx.fresh(name, TReal), TReal)
    if isinstance(kind, (TStruct, TOpaque)):
        return it.lift(ctx.fresh(name, kind), kind)
    if isinstance(kind, tuple) and kind[0] == "list":
        ety = kind[1]
        return SymList(ctx.fresh(name + "_len", TInt), z3.Const(ctx.fresh_name(name + "_arr"), z3.ArraySort(z3.IntSort(), ety.sort())), ety)
    if isinstance(kind, tuple) and kind[0] == "optional":
        # value that is either None or of the inner kind: both alternatives are explored
        if ctx.decide(2, None, f"opt_{name}") == 0:
            return None
        return havoc_value(it, name, kind[1], cur)
    if isinstance(kind, tuple) and kind[0] == "set":
        return SymSet(z3.Const(ctx.fresh_name(name + "_has"), z3.ArraySort(kind[1].sort(), z3.BoolSort())), kind[1])
    if isinstance(kind, tuple) and kind[0] == "dict":
        kty, vty = kind[1], kind[2]
        return SymDict(
            z3.Const(ctx.fresh_name(name + "_has"), z3.ArraySort(kty.sort(), z3.BoolSort())),
            z3.Const(ctx.fresh_name(name + "_val"), z3.ArraySort(kty.sort(), vty.sort())),
            kty,
            vty,
            name,
        )
    if kind == "inplace":
        havoc_cell(it, name, cur)
        return cur
    raise Unsupported(f"havoc kind {kind!r}")


def havoc_cell(it, name, cell):
    ctx = it.ctx
    if isinstance(cell, SymList):
        cell.length = ctx.fresh(name + "_len", TInt)
        cell.arr = z3.Const(ctx.fresh_name(name + "_arr"), z3.ArraySort(z3.IntSort(), cell.ety.sort()))
        ctx.assume(cell.length >= 0)
    elif isinstance(cell, SymSet):
        cell.has = z3.Const(ctx.fresh_name(name + "_set"), z3.ArraySort(cell.kty.sort(), z3.BoolSort()))
    elif isinstance(cell, SymDict):
        cell.has = z3.Const(ctx.fresh_name(name + "_has"), z3.ArraySort(cell.kty.sort(), z3.BoolSort()))
        cell.val = z3.Const(ctx.fresh_name(name + "_val"), z3.ArraySort(cell.kty.sort(), cell.vty.sort()))
    else:
        raise Unsupported(f"cannot havoc {type(cell).__name__}")


def _call_contract(fn, what, *a):
    """contract callbacks that do not fit the code any more (renamed local, restructured loop) make the
    task UNDECIDED -- a structural mismatch is never a violation and never a checker crash"""
    try:
        return fn(*a)
    except (KeyError, AttributeError, TypeError, IndexError, AssertionError) as e:
        raise Unsupported(f"{what} does not match the structure of the code ({type(e).__name__}: {e})")


def run_invariant_loop(it, s, env, spec, frame, ordinal, kind, iterable=None):
    from .interp import BreakEx, ContinueEx, Env

    ctx = it.ctx
    qn = frame.func.qualname
    tag = f"{qn}#loop{ordinal}"
    g = {"k": None, "pre": {}, "iter": iterable}
    if spec.target is not None:
        import ast as _a

        def _names(t):
            if isinstance(t, _a.Name):
                return t.id
            if isinstance(t, (_a.Tuple, _a.List)):
                return tuple(_names(z) for z in t.elts)
            return "?"

        got = _names(s.target) if kind == "for" else None
        if got != spec.target:
            raise Unsupported(f"loop contract {tag} does not match the structure of the code (written for the loop over {spec.target!r}, found {got!r})")
    if spec.prepare:
        _call_contract(spec.prepare, f"loop contract {tag} (prepare)", it, env)
    # capture pre-loop state
    for name in spec.carried:
        if name in env.vars:
            cur = env.vars[name]
            if isinstance(cur, SymList):
                g["pre"][name] = (cur.length, cur.arr)
            elif isinstance(cur, SymDict):
                g["pre"][name] = (cur.has, cur.val)
            else:
                g["pre"][name] = cur
    if spec.pre_capture:
        g["pre"].update(_call_contract(spec.pre_capture, f"loop contract {tag} (pre-state)", it, env))
    seq = None
    vis = None
    if kind == "for":
        if isinstance(iterable, KeyIter):
            vis0 = z3.K(iterable.kty.sort(), z3.BoolVal(False))
            g["vis"] = vis0
        else:
            seq = to_symseq(it, iterable)
            g["seq"] = seq
            g["k"] = z3.IntVal(0)
    # 1. invariant holds on entry
    for name, term in _call_contract(spec.invariant, f"loop contract {tag}", it, env, g):
        ctx.oblige(f"{tag}.inv_init.{name}", term)
    # 2. havoc
    for name, knd in spec.carried.items():
        cur = env.vars.get(name)
        if knd == "inplace" and cur is None:
            raise Unsupported(f"in-place carried variable {name} not defined before loop")
        if knd != "inplace" and isinstance(cur, list) and isinstance(knd, tuple):
            pass
        env.vars[name] = havoc_value(it, name, knd, cur)
    for cf in spec.cells:
        havoc_cell(it, "cell", _call_contract(cf, f"loop contract {tag} (cells)", env))
    if spec.havoc_more:
        _call_contract(spec.havoc_more, f"loop contract {tag} (havoc)", it, env)
    if kind == "for":
        if seq is not None:
            k = ctx.fresh("k", TInt)
            n = zlen(seq.length)
            ctx.assume(z3.And(k >= 0, k <= n))
            g["k"] = k
        else:
            vis = z3.Const(ctx.fresh_name("vis"), z3.ArraySort(iterable.kty.sort(), z3.BoolSort()))
            kk = z3.Const(ctx.fresh_name("vk"), iterable.kty.sort())
            ctx.assume(z3.ForAll([kk], z3.Implies(z3.Select(vis, kk), z3.Select(iterable.has, kk))))
            g["vis"] = vis
    # 3. assume invariant
    for name, term in _call_contract(spec.invariant, f"loop contract {tag}", it, env, g):
        ctx.assume(term)
    ctx.cover(f"{tag}.reachable")
    # 4. iterate or exit
    if kind == "while":
        c = it.eval_expr(s.test, env)
        go = it.branch_on(c, f"while{ordinal}")
    elif seq is not None:
        go = ctx.branch(g["k"] < zlen(seq.length), f"for{ordinal}")
    else:
        # some unvisited key remains?
        cur = z3.Const(ctx.fresh_name("cur"), iterable.kty.sort())
        kk = z3.Const(ctx.fresh_name("vk"), iterable.kty.sort())
        choice = ctx.decide(2, None, f"forkeys{ordinal}")
        go = choice == 0
        if go:
            ctx.assume(z3.And(z3.Select(iterable.has, cur), z3.Not(z3.Select(vis, cur))))
        else:
            ctx.assume(z3.ForAll([kk], z3.Implies(z3.Select(iterable.has, kk), z3.Select(vis, kk))))
        g["cur"] = cur
    if not go:
        it.exec_block(s.orelse, env)
        return
    # body
    g_pre = dict(g)
    g_pre["state"] = {n: ((v.length, v.arr) if isinstance(v, SymList) else (v.has, v.val) if isinstance(v, SymDict) else v) for n, v in env.vars.items() if n in spec.carried}
    if kind == "for":
        if seq is not None:
            x = it.lift(sel(seq.arr, g["k"]), seq.ety)
        else:
            if iterable.mode == "keys":
                x = it.lift(g["cur"], iterable.kty)
            elif iterable.mode == "items":
                x = (it.lift(g["cur"], iterable.kty), it.lift(sel(iterable.val, g["cur"]), iterable.vty))
            else:
                x = it.lift(sel(iterable.val, g["cur"]), iterable.vty)
        it.assign(s.target, x, env)
    try:
        it.exec_block(s.body, env)
    except BreakEx:
        return
    except ContinueEx:
        pass
    # preservation
    g2 = dict(g)
    if kind == "for":
        if seq is not None:
            g2["k"] = g["k"] + 1
        else:
            g2["vis"] = z3.Store(vis, g["cur"], z3.BoolVal(True))
    if spec.step_lemmas:
        for fact in _call_contract(spec.step_lemmas, f"lemma hook {tag}", it, env, g_pre):
            ctx.assume(fact)
    for name, term in _call_contract(spec.invariant, f"loop contract {tag}", it, env, g2):
        ctx.oblige(f"{tag}.inv_preserved.{name}", term)
    raise PathEnd()


# ----------------------------------------------------------------------------
# modelled stdlib modules


def _functools(it):
    from .interp import BuiltinVal, ModuleVal

    def lru_cache(it_, a, k):
        # decorator dropped (identity)
        if a and not isinstance(a[0], int):
            return a[0]
        return BuiltinVal("lru_deco", lambda it2, a2, k2: a2[0])

    def reduce(it_, a, k):
        f, seq = a[0], a[1]
        items = None if isinstance(seq, DictGen) else concrete_iter(it_, seq)
        if items is None:
            h = getattr(it_, "reduce_hook", None)
            if h:
                return h(it_, f, seq)
            raise Unsupported("functools.reduce over symbolic iterable")
        if len(a) > 2:
            acc = a[2]
        else:
            if not items:
                raise PyRaise("TypeError", "reduce() of empty iterable with no initial value")
            acc, items = items[0], items[1:]
        for x in items:
            acc = it_.call(f, [acc, x])
        return acc

    return ModuleVal("functools", {"lru_cache": BuiltinVal("lru_cache", lru_cache), "reduce": BuiltinVal("reduce", reduce)})


def _operator(it):
    from .interp import BuiltinVal, ModuleVal

    def mk(op):
        return BuiltinVal(f"operator.{op.__name__}", lambda it_, a, k: it_.binop(op, a[0], a[1]))

    return ModuleVal(
        "operator",
        {
            "add": mk(ast.Add),
            "sub": mk(ast.Sub),
            "mul": mk(ast.Mult),
            "truediv": mk(ast.Div),
            "pow": mk(ast.Pow),
            "neg": BuiltinVal("operator.neg", lambda it_, a, k: it_.eval_expr(ast.UnaryOp(ast.USub(), ast.Constant(0)), None) if False else _neg(it_, a[0])),
        },
    )


def _neg(it, v):
    from .interp import I as toI

    if isinstance(v, (int, float)):
        return -v
    if isinstance(v, SV) and v.ty in (TInt, TBool):
        return SV(-toI(v), TInt)
    if isinstance(v, SV) and v.ty is TReal:
        return SV(-v.t, TReal)
    r = opaque_neg(it, v)
    if r is None:
        raise Unsupported("neg")
    return r


def _itertools(it):
    from .interp import BuiltinVal, ModuleVal

    def product(it_, a, k):
        import itertools

        lists = [concrete_iter(it_, x) for x in a]
        if any(l is None for l in lists):
            h = getattr(it_, "product_hook", None)
            if h:
                return h(it_, a, k)
            raise Unsupported("itertools.product over symbolic iterables")
        return [tuple(t) for t in itertools.product(*lists)]

    return ModuleVal("itertools", {"product": BuiltinVal("product", product)})


def _math(it):
    from .interp import BuiltinVal, ModuleVal

    def prod(it_, a, k):
        items = concrete_iter(it_, a[0])
        if items is None:
            raise Unsupported("math.prod over symbolic iterable")
        r = 1
        for x in items:
            r = it_.binop(ast.Mult, r, x)
        return r

    return ModuleVal("math", {"prod": BuiltinVal("prod", prod)})


def _collections(it):
    from .interp import BuiltinVal, ModuleVal

    return ModuleVal(
        "collections",
        {
            "OrderedDict": BuiltinVal("OrderedDict", lambda it_, a, k: {}),
            "defaultdict": BuiltinVal("defaultdict", lambda it_, a, k: (_ for _ in ()).throw(Unsupported("defaultdict"))),
        },
    )


def _contextlib(it):
    from .interp import BuiltinVal, ModuleVal

    return ModuleVal("contextlib", {"contextmanager": BuiltinVal("contextmanager", lambda it_, a, k: a[0])})


def _passive(name):
    def mk(it):
        from .interp import ModuleVal

        return ModuleVal(name, getter=lambda nm: (_ for _ in ()).throw(Unsupported(f"{name}.{nm}")))

    return mk


MODULES = {
    "functools": _functools,
    "operator": _operator,
    "itertools": _itertools,
    "math": _math,
    "collections": _collections,
    "contextlib": _contextlib,
    "hashlib": _passive("hashlib"),
    "pickle": _passive("pickle"),
    "warnings": _passive("warnings"),
    "os": _passive("os"),
}
