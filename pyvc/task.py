"""Verification tasks: one task = one function (or lemma over contracts) + its sidecar
contract instance.  The runner explores all paths, collects obligations, discharges
them and returns a JSON-able record."""

import time
import traceback

import z3

from .core import Ctx, PathEnd, PyRaise, Unsupported, discharge
from .extract import Repo
from .interp import Interp

MAX_PATHS = 4000


def thorough():
    """contract modules may enumerate a larger bound (more ranks / shapes) in the thorough tier"""
    import os

    return os.environ.get("PYVC_TIER") == "thorough"


class Task:
    """name: obligation-name prefix; props: property ids served; targets: qualnames whose
    source is under contract (sha recorded); body(it): drives the interpreter."""

    def __init__(self, name, props, targets, body, axioms=None, assumes=(), bounded_rank=None, timeout_ms=20000, refine_axioms=None):
        self.name = name
        self.props = props
        self.targets = targets
        self.body = body
        self.axioms = axioms or (lambda: [])
        self.assumes = list(assumes)
        self.bounded_rank = bounded_rank
        self.timeout_ms = timeout_ms
        # optional: axioms that make an abstraction exact (e.g. an uninterpreted product := real product).  A
        # refutation found under the abstraction is re-checked with them: it stands only if it survives
        # (unsat -> proved, unknown -> unknown), so an abstraction can never by itself produce a violation.
        self.refine_axioms = refine_axioms


def check_call(it, name, fn, args=(), kwargs=None, post=None, raises=None, pre_state=None):
    """Call interpreter-level function value `fn`; oblige post-conditions on normal return;
    an exception not allowed by `raises` must be unreachable.

    post(result) -> [(clause_name, z3 bool | python bool)]
    raises: {exc_name: cond}  where cond is a z3 bool/python bool that must hold whenever
            that exception escapes (True = always allowed)."""
    ctx = it.ctx
    try:
        res = it.call(fn, list(args), kwargs or {})
    except PyRaise as e:
        allowed = (raises or {}).get(e.exc)
        if allowed is None:
            ctx.oblige(f"{name}.no_unexpected_{e.exc}", False, {"lineno": e.lineno, "msg": str(e.msg)[:80]})
        elif allowed is not True:
            terms = allowed(it) if callable(allowed) else allowed
            ctx.oblige(f"{name}.raises_{e.exc}_only_when_specified", terms, {"lineno": e.lineno})
        return None, e.exc
    if post is not None:
        try:
            clauses = post(res)
        except (KeyError, AttributeError, TypeError, IndexError) as e:
            raise Unsupported(f"post-condition of {name} does not match the shape of the result ({type(e).__name__}: {e})")
        for cname, term in clauses:
            ctx.oblige(f"{name}.{cname}", term)
    return res, None


def run_task(task, repo=None, max_paths=MAX_PATHS):
    import os

    # a retry of a task whose obligation came back `unknown` runs with a multiple of the solver budget
    scale = float(os.environ.get("PYVC_TIMEOUT_SCALE", "1") or 1)
    if scale != 1:
        task.timeout_ms = int(task.timeout_ms * scale)
    t0 = time.time()
    repo = repo or Repo()
    rec = {
        "task": task.name,
        "props": task.props,
        "targets": [],
        "status": "ok",
        "obligations": [],
        "paths": 0,
        "assumes": task.assumes,
        "bounded_rank": task.bounded_rank,
    }
    for q in task.targets:
        try:
            rec["targets"].append({"function": q, "sha256_16": repo.sha_of(q), "line": repo.lineno_of(q)})
        except Exception as e:
            rec["status"] = "undecided"
            rec["reason"] = f"extraction failed for {q}: {e}"
            rec["wall_s"] = round(time.time() - t0, 3)
            return rec
    ctx = Ctx(task.name)
    try:
        ctx.axioms = list(task.axioms())
    except Exception:
        rec["status"] = "crash"
        rec["reason"] = traceback.format_exc()[-1500:]
        return rec
    it = Interp(repo, ctx)
    try:
        while ctx.worklist:
            prefix = ctx.worklist.pop()
            ctx.reset_path(prefix)
            it.reset_path_state()
            try:
                task.body(it)
            except PathEnd:
                pass
            ctx.paths_done += 1
            if ctx.paths_done > max_paths:
                raise Unsupported(f"more than {max_paths} paths")
    except Unsupported as e:
        rec["status"] = "undecided"
        rec["reason"] = f"UNSUPPORTED {task.name}: {e}"
    except PyRaise as e:
        rec["status"] = "undecided"
        rec["reason"] = f"uncaught interpreted exception outside check_call: {e.exc} {e.msg} line {e.lineno}"
    except Exception:
        rec["status"] = "crash"
        rec["reason"] = traceback.format_exc()[-2500:]
    rec["paths"] = ctx.paths_done
    obs = list(ctx.obligations.values())
    if rec["status"] == "ok" and not obs:
        rec["status"] = "undecided"
        rec["reason"] = "zero obligations generated (vacuity guard)"
    solver_s = 0.0
    n_timeouts = 0
    for ob in obs:
        if rec["status"] == "crash":
            break
        if n_timeouts >= 5:
            # keep a changed tree from costing minutes of solver time: after repeated timeouts the
            # remaining obligations of this task are left undischarged (reported as such)
            ob.status, ob.backend, ob.reason, ob.time = "unknown", "z3", "not attempted: 5 earlier obligations of this task timed out", 0.0
        else:
            try:
                discharge(ob, ctx.axioms, task.timeout_ms, witness=ob.meta.get("_witness") or ctx.witness)
                if ob.status == "refuted" and task.refine_axioms is not None:
                    t_abs = ob.time
                    discharge(ob, list(ctx.axioms) + list(task.refine_axioms()), task.timeout_ms, witness=ob.meta.get("_witness") or ctx.witness)
                    ob.time += t_abs
                    if ob.status == "unknown":
                        ob.reason = "refuted under the abstraction, undecided with the exact definition: " + str(ob.reason)
            except Exception:
                ob.status = "unknown"
                ob.reason = traceback.format_exc()[-500:]
            if ob.status == "unknown" and ob.time > 0.8 * task.timeout_ms / 1000:
                n_timeouts += 1
        solver_s += ob.time
        o = {"name": ob.name, "status": ob.status, "backend": ob.backend, "time_s": round(ob.time, 4), "path": ob.meta.get("path", "")}
        if ob.meta.get("lineno"):
            o["lineno"] = ob.meta["lineno"]
        if ob.status == "refuted" and ob.model is not None:
            o["model"] = model_to_json(ob.model)
            if ob.witness is not None:
                o["witness"] = ob.witness
        if ob.status == "unknown":
            o["reason"] = ob.reason
        rec["obligations"].append(o)
    # vacuity: covers must be satisfiable
    vac = []
    seen = set()
    for name, pc, term in ctx.covers:
        if name in seen:
            continue
        seen.add(name)
        s = z3.Solver()
        s.set("timeout", 5000)
        for a in ctx.axioms:
            s.add(a)
        for p in pc:
            s.add(p)
        if term is not None:
            s.add(term)
        r = s.check()
        vac.append({"cover": name, "result": str(r)})
        if r == z3.unsat:
            rec["status"] = "undecided" if rec["status"] == "ok" else rec["status"]
            rec["reason"] = rec.get("reason", "") + f" vacuous: cover {name} unsatisfiable"
    rec["covers"] = vac
    rec["solver_s"] = round(solver_s, 3)
    rec["wall_s"] = round(time.time() - t0, 3)
    rec["notes"] = sorted(set(ctx.notes))
    return rec


def model_to_json(m, limit=60):
    out = {}
    for d in m.decls()[:limit]:
        try:
            v = m[d]
            s = str(v)
            if len(s) > 300:
                s = s[:300] + "..."
            out[d.name()] = s
        except Exception:
            pass
    return out
