"""Mechanical extraction of functions / classes from /repo's *current working tree*.

Nothing is copied by hand: every run re-parses the files with `ast`.  What the
extraction drops is reported by `dropped_report()` and goes into every evidence file:
docstrings, annotations, `functools.lru_cache` decorators (treated as identity: purity
and non-mutation of cached results are separate frame obligations), `singledispatch`
registration decorators (dispatch is by the class the contract names).
"""

import ast
import hashlib
import os

REPO = os.environ.get("SYMMRAY_REPO", "/repo")
PKG = "symmray"


class Module:
    def __init__(self, name, path):
        self.name = name
        self.path = path
        with open(path) as f:
            self.src = f.read()
        self.tree = ast.parse(self.src)
        self.lines = self.src.splitlines()
        self.functions = {}
        self.classes = {}
        self.assigns = {}  # module level simple assignments name -> ast expr
        self.imports = {}  # local name -> (module, name) for `from .x import y`
        for node in self.tree.body:
            if isinstance(node, (ast.FunctionDef,)):
                self.functions[node.name] = node
            elif isinstance(node, ast.ClassDef):
                self.classes[node.name] = node
            elif isinstance(node, ast.Assign) and len(node.targets) == 1 and isinstance(node.targets[0], ast.Name):
                self.assigns[node.targets[0].id] = node.value
            elif isinstance(node, ast.ImportFrom):
                mod = node.module or ""
                for a in node.names:
                    self.imports[a.asname or a.name] = (("." * node.level) + mod, a.name)
            elif isinstance(node, ast.Import):
                for a in node.names:
                    self.imports[a.asname or a.name] = (a.name, None)


class Repo:
    def __init__(self, root=None):
        self.root = root or REPO
        self.modules = {}
        self.dropped = set()

    def module(self, name):
        if name not in self.modules:
            path = os.path.join(self.root, PKG, name + ".py")
            self.modules[name] = Module(name, path)
        return self.modules[name]

    def has_module(self, name):
        return os.path.exists(os.path.join(self.root, PKG, name + ".py"))

    # ---- lookup by qualified name "module.func" / "module.Class.method"
    def find(self, qualname):
        parts = qualname.split(".")
        mod = self.module(parts[0])
        if len(parts) == 2:
            if parts[1] in mod.functions:
                return mod.functions[parts[1]]
            if parts[1] in mod.classes:
                return mod.classes[parts[1]]
            raise KeyError(qualname)
        cls = mod.classes[parts[1]]
        for node in cls.body:
            if isinstance(node, ast.FunctionDef) and node.name == parts[2]:
                return node
        raise KeyError(qualname)

    def exists(self, qualname):
        try:
            self.find(qualname)
            return True
        except (KeyError, FileNotFoundError):
            return False

    def source_of(self, qualname):
        node = self.find(qualname)
        mod = self.module(qualname.split(".")[0])
        start = min([node.lineno] + [d.lineno for d in getattr(node, "decorator_list", [])])
        return "\n".join(mod.lines[start - 1 : node.end_lineno])

    def sha_of(self, qualname):
        return hashlib.sha256(self.source_of(qualname).encode()).hexdigest()[:16]

    def lineno_of(self, qualname):
        return self.find(qualname).lineno

    def class_members(self, modname, clsname):
        """dict name -> ast node (FunctionDef or value expr) of the class body."""
        cls = self.module(modname).classes[clsname]
        out = {}
        for node in cls.body:
            if isinstance(node, ast.FunctionDef):
                out[node.name] = node
            elif isinstance(node, ast.Assign) and len(node.targets) == 1 and isinstance(node.targets[0], ast.Name):
                out[node.targets[0].id] = node.value
        return out

    def class_bases(self, modname, clsname):
        cls = self.module(modname).classes[clsname]
        out = []
        for b in cls.bases:
            if isinstance(b, ast.Name):
                out.append(b.id)
            elif isinstance(b, ast.Attribute):
                out.append(b.attr)
        return out

    def resolve_class(self, modname, clsname):
        """Find (module, class) for a class name visible in `modname`."""
        mod = self.module(modname)
        if clsname in mod.classes:
            return modname, clsname
        if clsname in mod.imports:
            m, n = mod.imports[clsname]
            m = m.lstrip(".")
            if m and self.has_module(m):
                return self.resolve_class(m, n)
        return None

    def decorators(self, node):
        out = []
        for d in getattr(node, "decorator_list", []):
            out.append(ast.unparse(d))
        return out


def dropped_report():
    return [
        "docstrings and type annotations (no run-time meaning)",
        "functools.lru_cache decorators: treated as identity (purity / non-mutation of cached results are separate frame obligations)",
        "functools.singledispatch / .register decorators: dispatch resolved by the class named in the contract",
        "f-strings: formatted for real when every interpolated value is concrete on the path (labels of calc_reshape_args); otherwise an opaque text that may be raised / stored but not inspected",
    ]
