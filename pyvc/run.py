"""Run verification tasks of contract modules; print a summary / write JSON.

python3-vt -m pyvc.run --modules contracts.symmetries [--filter C17.Z4] [--out f.json] [-j 12]
"""

import argparse
import importlib
import json
import multiprocessing as mp
import os
import sys
import time

sys.path.insert(0, os.path.dirname(os.path.dirname(os.path.abspath(__file__))))

from pyvc.task import run_task  # noqa: E402


def _props_of(task):
    try:
        from contracts.property_map import props_of

        return props_of(task.name, task.props)
    except Exception:
        return list(task.props)


def _run_one(args):
    modname, idx = args
    mod = importlib.import_module(modname)
    task = mod.tasks()[idx]
    task.props = _props_of(task)  # own properties + dependency closure (contracts/property_map.py)
    try:
        return run_task(task)
    except Exception:
        import traceback

        return {"task": task.name, "props": task.props, "status": "crash", "reason": traceback.format_exc()[-2000:], "obligations": [], "targets": []}


def run_modules(modnames, flt=None, props=None, jobs=12, names=None):
    work = []
    for m in modnames:
        mod = importlib.import_module(m)
        for i, t in enumerate(mod.tasks()):
            if flt and flt not in t.name:
                continue
            if names is not None and t.name not in names:
                continue
            if props and not (set(props) & set(_props_of(t))):
                continue
            work.append((m, i))
    if jobs <= 1 or len(work) <= 1:
        return [_run_one(w) for w in work]
    with mp.get_context("fork").Pool(min(jobs, len(work))) as pool:
        return pool.map(_run_one, work, chunksize=1)


def main():
    ap = argparse.ArgumentParser()
    ap.add_argument("--modules", nargs="+", required=True)
    ap.add_argument("--filter", default=None)
    ap.add_argument("--out", default=None)
    ap.add_argument("-j", type=int, default=12)
    ap.add_argument("-v", action="store_true")
    a = ap.parse_args()
    t0 = time.time()
    recs = run_modules(a.modules, a.filter, jobs=a.j)
    nob = ndis = 0
    for r in recs:
        obs = r["obligations"]
        nob += len(obs)
        ndis += sum(o["status"] == "proved" for o in obs)
        bad = [o for o in obs if o["status"] != "proved"]
        line = f"{r['status']:9s} {r['task']:45s} obligations={len(obs):3d} proved={len(obs) - len(bad):3d} paths={r.get('paths', 0)} {r.get('wall_s', 0)}s"
        print(line)
        if r["status"] != "ok":
            print("     reason:", r.get("reason", "")[-1200:])
        for o in bad:
            print("    ", o["status"], o["name"], o.get("path", ""), json.dumps(o.get("model", o.get("reason", "")))[:400])
        if a.v:
            for o in obs:
                print("      ", o["status"], o["name"], o["time_s"])
    print(f"tasks={len(recs)} obligations={nob} proved={ndis} wall={time.time() - t0:.1f}s")
    if a.out:
        json.dump(recs, open(a.out, "w"), indent=1)


if __name__ == "__main__":
    main()
