#!/usr/bin/env python3
"""Per-property status table for DESIGN.md section 8.10, generated from evidence/Cxx.json (written by ./check)
and contracts/property_map.py.  usage: python3 gen_status.py  (prints markdown)"""
import json
import os
import sys

HERE = os.path.dirname(os.path.abspath(__file__))
sys.path.insert(0, HERE)
from contracts.property_map import PROPERTY_MAP  # noqa: E402

print("| id | level claimed | proof-tier obligations (discharged / generated) | functions under contract | solver s | bounded evaluations (distinct) | tier of the evidence | refuted obligations that isolate known findings |")
print("|---|---|---|---|---|---|---|---|")
for pid in sorted(PROPERTY_MAP):
    f = os.path.join(HERE, "evidence", f"{pid}.json")
    if not os.path.exists(f):
        print(f"| {pid} | {PROPERTY_MAP[pid]['level']} | (no evidence file) | | | | | |")
        continue
    e = json.load(open(f))
    c = e["coverage"]
    kf = [u for u in c.get("undischarged", []) if "known finding" in u.get("reason", "")]
    ids = sorted({u["reason"].split("known finding ")[1].split()[0] for u in kf})
    print(f"| {pid} | {e['level']} | {c['discharged']} / {c['obligations']} | {len(c.get('functions_under_contract', []))} | {c.get('solver_s', 0)} | {c.get('evaluations', 0)} ({c.get('distinct_nontrivial', 0)}) | {e['tier']} | {len(kf)} ({', '.join(ids)}) |" if kf else f"| {pid} | {e['level']} | {c['discharged']} / {c['obligations']} | {len(c.get('functions_under_contract', []))} | {c.get('solver_s', 0)} | {c.get('evaluations', 0)} ({c.get('distinct_nontrivial', 0)}) | {e['tier']} | — |")
